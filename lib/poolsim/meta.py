"""Static description of the poolsim engine (C15).  No quara import."""

PROPERTY = "C15"
ENGINE = "poolsim"

TIERS = {
    "quick": {"runs": 96, "faultfree_runs": 6, "determinism_runs": 4, "run_timeout": 900, "shrink_evals": 60},
    "thorough": {"runs": 1600, "faultfree_runs": 24, "determinism_runs": 16, "run_timeout": 1800, "shrink_evals": 150},
}

DIRECTED = {
    "quick": [("nested_threads_lossmin", 1), ("nested_threads_lossmin", 2), ("batching_weighted_loss", 3), ("single_int_seed", 4), ("single_povmt", 5), ("four_levels", 6), ("parent_tolerance", 7), ("parent_tolerance", 8), ("two_settings", 9), ("two_settings", 10), ("two_settings", 11)]
    + [("nested_threads_weighted", 12 + i) for i in range(4)]
    + [("nested_threads_matrix", 300 + i) for i in range(15)],
    "thorough": [("nested_threads_lossmin", i) for i in range(1, 13)] + [("batching_weighted_loss", 20 + i) for i in range(8)]
    + [("single_int_seed", 40 + i) for i in range(8)] + [("single_povmt", 60 + i) for i in range(4)] + [("four_levels", 80 + i) for i in range(8)] + [("parent_tolerance", 100 + i) for i in range(8)] + [("two_settings", 120 + i) for i in range(12)] + [("nested_threads_weighted", 140 + i) for i in range(16)] + [("nested_threads_matrix", 300 + i) for i in range(90)],
}

# real-joblib calibration of the SimParallel model (thorough tier; see selftest/joblib_calibration.py)
PRECHECKS = {"quick": ["selftest/globals_scan.py"], "thorough": ["selftest/globals_scan.py", "selftest/joblib_calibration.py"]}

RULE = (
    "One evaluation = one configuration of quara's Monte-Carlo flow (unknown type, noise model, samples, repetitions, sample sizes, "
    "estimator cases, seeds, parallel_mode in {1..4}^4, or the single-setting entry point) drawn from seed_i, executed once serially "
    "(reference) and then under 3 (quick) / 5 (thorough) simulated worker schedules with fault scripts: batch partition, worker "
    "assignment and order at the process level, baton-thread pre-emption at quara function entries / lines at the nested thread level, "
    "clock jumps, global-RNG pollution at stage boundaries, dirty re-used workers. Distinct = digest of (batch partition, worker "
    "assignment, execution order, thread switch list) over the schedules of the run; non-trivial = at least one fault kind actually "
    "fired (non-trivial partition, re-order, worker re-use, thread pre-emption, clock jump, pollution) in some schedule of the run."
)

COMPONENTS = {
    "real": [
        "quara.simulation.standard_qtomography_simulation_flow (execute_simulation_test_settings, re_estimate_test_settings, writers)",
        "quara.simulation.standard_qtomography_simulation (execute_simulation, execute_estimation, re_estimate*)",
        "generation settings / noise models, tomography classes, data generation, Linear / ProjectedLinear / LossMinimization estimators, losses, PGDB algorithm, simulation checks",
        "pickle / cloudpickle round trips of task arguments and results, real files in a scratch directory, numpy / scipy",
    ],
    "stub": [
        "joblib.Parallel -> poolsim.simpool.SimParallelFactory (process level: per-batch pickling, per-worker process globals, seeded batch/worker/order choice; thread level: real threads passing a baton at sys.monitoring events; deeper: sequential)",
        "module attribute `time` of 8 quara modules -> SimClock (simulated time, scripted jumps)",
    ],
    "reference_model": "the same flow call made serially (parallel_mode=None) on freshly built inputs with pristine process globals and a monotone clock; for calls that handle two test settings, also the setting under study run alone (H9)",
}

ASSUMPTIONS = [
    "SimParallel models joblib 1.6 nesting (processes, then threads, then sequential), consecutive batching, per-worker globals, result order; checked against real joblib by selftest/joblib_calibration.py (thorough tier)",
    "thread pre-emption only at Python function entries (optionally lines of selected files) inside quara; every produced interleaving is a legal CPython interleaving",
    "simulated process workers share one interpreter: isolation = pickling + swapping numpy/python RNG state, Settings atol and the physicality-check epsilon",
    "1-qubit systems, <=4 workers per level, <=6 repetitions, <=3 samples; PDF report off (broken on this image for unrelated reasons)",
    "scipy.linalg.kron shim supplied by the harness; single-threaded BLAS; exact float comparison",
    "probes that are 0 on a correct tree by design: attribute_assigned_by_two_threads / switch_after_conflicting_attribute_write count write-write conflicts between threads on one object's attribute, which the repaired tree does not have (they fire under the seeded changes r8c15a-1, r3c15a-3 and with repair D2 reverted, see selftest/sensitivity_last.txt); crash_survivor_unreadable needs the crash to tear test_setting.pickle itself (the first write) and is reached in the thorough tier; schedule_stopped_at_the_yield_cap_undecided counts schedules skipped because a heavy configuration reached the safety cap of 30 million yield points (none in the default seed's tiers)",
]

FAULT_KINDS = ["batch_split", "worker_reuse", "proc_reorder", "thread_preempt", "clock_jump_fwd", "clock_jump_back", "global_rng_pollution", "crash_at_file_write", "torn_write", "stale_output_dir", "pollution_inside_run", "worker_started_elsewhere", "task_exception", "disk_full"]

PROBES = [
    "two_tasks_in_flight_in_threads", "switch_on_hot_line_of_mutator_function", "switch_inside_loss_or_algo_configuration_or_optimize", "switch_inside_composite_system_table_code",
    "batch_with_2plus_tasks_sharing_objects", "worker_reused_with_dirty_global_rng", "backwards_clock_inside_timed_section",
    "H7_verdict_ok", "H7_verdict_ng", "H7_undecided", "H5_decisive", "H5_trivial",
    "attribute_assigned_by_two_threads", "switch_after_conflicting_attribute_write", "switch_at_disk_io", "schedule_stopped_at_the_yield_cap_undecided", "two_test_settings_in_one_call", "task_failure_propagated", "crash_survivor_reestimated", "crash_survivor_unreadable", "crash_full_reestimate_returned", "crash_full_reestimate_raised",
]
