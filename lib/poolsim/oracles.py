"""poolsim oracles (DESIGN.md 3.5): schedule-vs-reference comparison H1-H4, and the checks on one run's
recorded history I1, H5, H6, H7.  The physicality / depolarising-formula tests are written from the
definitions (matrix units through the HS matrix), not with quara's conversion code."""
import copy
import io
import json
import math
import os
import pickle
import shutil
import tempfile

import numpy as np
from scipy.stats import binom

from simcore import env
from simcore.util import digest, to_jsonable

from poolsim import workload

PHYS_TOL = 1e-9


def level_signature(cfg):
    pm = cfg.get("parallel_mode") or {}
    order = ["per_sample_unit", "per_data_generation", "per_estimator_unit", "per_estimator_execution"]
    return "".join("P" if pm.get(k, 1) > 1 else "-" for k in order)


# ---------------------------------------------------------------------------------------------
# files
# ---------------------------------------------------------------------------------------------
def read_output_dir(out_dir):
    view = {}
    for root, _, files in os.walk(out_dir):
        for fn in sorted(files):
            p = os.path.join(root, fn)
            rel = os.path.relpath(p, out_dir)
            try:
                if fn.endswith(".pickle"):
                    with open(p, "rb") as f:
                        obj = pickle.load(f)
                    if type(obj).__name__ == "SimulationResult":
                        view[rel] = {"kind": "SimulationResult", "value": workload.extract_result(obj)}
                    elif type(obj).__name__ == "EstimatorTestSetting":
                        view[rel] = {"kind": "EstimatorTestSetting", "value": [obj.seed_data, obj.seed_qoperation, obj.n_rep, list(obj.num_data), obj.n_sample, list(obj.case_names)]}
                    else:
                        view[rel] = {"kind": type(obj).__name__, "value": None}
                elif fn.endswith(".json"):
                    with open(p) as f:
                        view[rel] = {"kind": "json", "value": _strip_times(json.load(f))}
                else:
                    with open(p) as f:
                        view[rel] = {"kind": "text", "value": f.read()}
            except Exception as e:
                view[rel] = {"kind": "unreadable", "value": f"{type(e).__name__}: {str(e)[:100]}"}
    return {"digest_view": {k: digest(_plain(v)) for k, v in sorted(view.items())}, "view": view}


def _strip_times(o):
    if isinstance(o, dict):
        return {k: _strip_times(v) for k, v in o.items() if "time" not in k.lower()}
    if isinstance(o, list):
        return [_strip_times(x) for x in o]
    return o


def _plain(o):
    if isinstance(o, dict):
        return {str(k): _plain(v) for k, v in o.items()}
    if isinstance(o, (list, tuple)):
        return [_plain(x) for x in o]
    return o


# ---------------------------------------------------------------------------------------------
# field-by-field comparison
# ---------------------------------------------------------------------------------------------
def first_diff(a, b, path=""):
    """returns (path, description, max_abs_diff) of the first difference between two extractions, or None."""
    if type(a) != type(b) and not (isinstance(a, (int, float, np.floating, np.integer)) and isinstance(b, (int, float, np.floating, np.integer))):
        return path, f"type {type(a).__name__} vs {type(b).__name__}", None
    if isinstance(a, dict):
        if sorted(a) != sorted(b):
            return path, f"keys {sorted(a)} vs {sorted(b)}", None
        for k in a:
            d = first_diff(a[k], b[k], f"{path}.{k}")
            if d:
                return d
        return None
    if isinstance(a, (list, tuple)):
        if len(a) != len(b):
            return path, f"length {len(a)} vs {len(b)}", None
        for i, (x, y) in enumerate(zip(a, b)):
            d = first_diff(x, y, f"{path}[{i}]")
            if d:
                return d
        return None
    if isinstance(a, np.ndarray):
        if a.shape != b.shape or a.dtype != b.dtype:
            return path, f"shape/dtype {a.shape}/{a.dtype} vs {b.shape}/{b.dtype}", None
        if a.tobytes() != b.tobytes():
            with np.errstate(all="ignore"):
                m = float(np.nanmax(np.abs(a.astype(complex) - b.astype(complex)))) if a.size else 0.0
            return path, "array values differ", m
        return None
    if isinstance(a, float):
        if a != b and not (math.isnan(a) and math.isnan(b)):
            return path, f"{a!r} vs {b!r}", abs(a - b)
        return None
    if a != b:
        return path, f"{a!r} vs {b!r}", None
    return None


def _oracle_for_path(path):
    if ".true_object" in path or ".tester_objects" in path:
        return "H1_generated_objects"
    if ".empi" in path:
        return "H2_empirical_distributions"
    if ".estimates" in path:
        return "H3_estimates"
    return "H4_order_checks_files"


def compare_runs(cfg, ref, run, si, viol, stats, sig):
    oc = stats["oracle_checks"]
    for k in ("H1", "H2", "H3", "H4"):
        oc[k] = oc.get(k, 0) + 1
    d = first_diff(ref["results"], run["results"], "results")
    if d:
        path, desc, m = d
        oracle = _oracle_for_path(path)
        case = None
        if "results[" in path:
            try:
                ridx = int(path.split("results[")[1].split("]")[0])
                case = _case_of(cfg, ref["results"][ridx], ridx)
            except Exception:
                case = None
        s = dict(sig, oracle=oracle)
        if case is not None and oracle == "H3_estimates":
            s.update(estimator=case["estimator"], loss=case.get("loss"))
        viol.append({"oracle": oracle, "what": f"schedule {si}: {path} differs from the serial run ({desc}, max abs diff {m})",
                     "detail": {"schedule": si, "field": path, "desc": desc, "max_abs_diff": m, "parallel_mode": cfg.get("parallel_mode")}, "signature": s})
        return
    fa, fb = ref["files"]["digest_view"], run["files"]["digest_view"]
    if fa != fb:
        names = sorted(set(fa) ^ set(fb)) or [k for k in sorted(fa) if fa[k] != fb.get(k)]
        det = {"schedule": si, "files": names[:5]}
        k = names[0]
        if k in ref["files"]["view"] and k in run["files"]["view"]:
            dd = first_diff(ref["files"]["view"][k], run["files"]["view"][k], k)
            det["first_difference"] = [str(x) for x in dd] if dd else None
        viol.append({"oracle": "H4_order_checks_files", "what": f"schedule {si}: files left in the output directory differ from the serial run: {names[:3]}",
                     "detail": det, "signature": dict(sig, oracle="H4_order_checks_files", what="files")})
        return
    ga = run.get("globals_after")
    if ga and (ga["atol"] != 1e-13 or ga["ineq_eps"] != 1e-5):
        viol.append({"oracle": "H4_order_checks_files", "what": f"schedule {si}: process-global tolerances changed by the run: {ga}", "detail": ga, "signature": dict(sig, oracle="H4_order_checks_files", what="globals")})


# ---------------------------------------------------------------------------------------------
# independent physics
# ---------------------------------------------------------------------------------------------
def _basis(c_sys):
    return [np.array(b.toarray() if hasattr(b, "toarray") else b, dtype=complex) for b in c_sys.basis()]


def _mat_from_vec(vec, basis):
    return sum(v * b for v, b in zip(vec, basis))


def _vec_of(mat, basis):
    return np.array([np.trace(b.conj().T @ mat) for b in basis])


def _psd_defect(m):
    h = (m + m.conj().T) / 2
    return max(0.0, -float(np.min(np.linalg.eigvalsh(h)))) + float(np.max(np.abs(m - m.conj().T)))


def _choi_from_hs(hs, basis, dim):
    J = np.zeros((dim * dim, dim * dim), dtype=complex)
    tp_defect = 0.0
    for k in range(dim):
        for l in range(dim):
            X = np.zeros((dim, dim), dtype=complex)
            X[k, l] = 1.0
            out = _mat_from_vec(np.asarray(hs) @ _vec_of(X, basis), basis)
            J += np.kron(X, out)
    return J


def physicality_defect(arr, basis, dim):
    """(eq_defect, ineq_defect) of an extracted object by the definitions."""
    t = arr["type"]
    A = arr["arrays"]
    I = np.eye(dim)
    if t == "State":
        rho = _mat_from_vec(A[0], basis)
        return abs(np.trace(rho) - 1.0), _psd_defect(rho)
    if t == "Povm":
        Es = [_mat_from_vec(v, basis) for v in A]
        return float(np.max(np.abs(sum(Es) - I))), max(_psd_defect(E) for E in Es)
    if t == "Gate":
        J = _choi_from_hs(A[0], basis, dim)
        Jr = J.reshape(dim, dim, dim, dim)
        tr_out = np.einsum("ikjk->ij", Jr)
        return float(np.max(np.abs(tr_out - I))), _psd_defect(J)
    if t == "MProcess":
        Js = [_choi_from_hs(h, basis, dim) for h in A]
        tr_out = np.einsum("ikjk->ij", sum(Js).reshape(dim, dim, dim, dim))
        return float(np.max(np.abs(tr_out - I))), max(_psd_defect(J) for J in Js)
    raise TypeError(t)


def depolarized_expected(ideal_arr, p, basis, dim):
    """(1-p)*ideal + p*(ideal with its output replaced by the maximally mixed state), from the definitions."""
    t = ideal_arr["type"]
    A = ideal_arr["arrays"]
    tr = np.array([np.trace(b) for b in basis])  # trace functional
    mm = _vec_of(np.eye(dim) / dim, basis)  # maximally mixed state
    M = np.outer(mm, tr)  # X -> Tr(X) I/d in vectorised form
    if t == "State":
        v = np.asarray(A[0])
        return [np.real((1 - p) * v + p * (M @ v))]
    if t == "Povm":
        # measuring after depolarising: E -> (1-p) E + p Tr(E)/d I  (adjoint map)
        return [np.real((1 - p) * np.asarray(e) + p * (M.conj().T @ np.asarray(e))) for e in A]
    return [np.real(((1 - p) * np.eye(len(mm)) + p * M) @ np.asarray(h)) for h in A]


# ---------------------------------------------------------------------------------------------
# checks on one run's recorded history
# ---------------------------------------------------------------------------------------------
def _collision_bound(prob_dists, num_data):
    logb = 0.0
    for p in prob_dists:
        p = np.asarray(p, dtype=float)
        i = int(np.argmin(np.abs(p - 0.5)))
        if not (1e-9 < p[i] < 1 - 1e-9):
            continue
        for n in num_data:
            m = float(np.max(binom.pmf(np.arange(n + 1), n, p[i])))
            if 0 < m < 1:
                logb += math.log(m)
    return math.exp(max(logb, -745.0))


def _case_of(cfg, r, ri):
    """the estimator case a result belongs to: by its own result_index, not by its position in the list."""
    idx = (r.get("result_index") or {}).get("case_index")
    if not isinstance(idx, int) or not 0 <= idx < len(cfg["cases"]):
        idx = ri % len(cfg["cases"])
    return cfg["cases"][idx]


def check_run_internal(cfg, run, viol, stats, sig_base, which):
    from quara.objects.qoperation_typical import generate_qoperation
    from quara.simulation import standard_qtomography_simulation as qsim

    oc = stats["oracle_checks"]
    pr = stats["probes"]
    results = run["results"]
    raw = run["raw_results"]
    ts = run["test_setting"]
    c_sys = ts.c_sys
    basis = _basis(c_sys)
    dim = c_sys.dim
    n_cases = len(cfg["cases"])
    method, para_true = cfg["noise"][0], cfg["noise"][1]
    para_tester = cfg["noise"][2] if len(cfg["noise"]) > 2 else para_true
    ut, name = cfg["unknown"]
    # ---- I1: generated objects physical; depolarised formula
    seen = set()
    for ri, r in enumerate(results):
        if (r.get("result_index") or {}).get("case_index", ri % n_cases) != 0:
            continue  # objects are per sample
        objs = [("true_object", r["true_object"], (ut, name))] + [(f"tester_objects[{i}]", t, tuple(b)) for i, (t, b) in enumerate(zip(r["tester_objects"], workload.testers_for(ut)))]
        for label, arr, base in objs:
            para = para_true if label == "true_object" else para_tester
            oc["I1_physical"] = oc.get("I1_physical", 0) + 1
            eq, ineq = physicality_defect(arr, basis, dim)
            if eq > PHYS_TOL or ineq > PHYS_TOL:
                viol.append({"oracle": "I1_noise_model_physical", "what": f"{which}: generated {label} ({base}, noise {method} {para}) is not physical: equality defect {eq:.2e}, positivity defect {ineq:.2e}",
                             "detail": {"object": to_jsonable(arr["arrays"]), "noise": [method, para]}, "signature": dict(sig_base, oracle="I1_noise_model_physical", noise=method, type=arr["type"])})
                return
            if method == "depolarized":
                oc["I1_depolarized"] = oc.get("I1_depolarized", 0) + 1
                ideal = workload.qobj_arrays(generate_qoperation(base[0], base[1], c_sys))
                want = depolarized_expected(ideal, para["error_rate"], basis, dim)
                dev = max(float(np.max(np.abs(np.asarray(w) - np.asarray(g)))) for w, g in zip(want, arr["arrays"]))
                if dev > 1e-12:
                    viol.append({"oracle": "I1_depolarized_formula", "what": f"{which}: depolarised {label} ({base}, p={para['error_rate']}) deviates from (1-p)*ideal + p*maximally-mixed by {dev:.2e}",
                                 "detail": {"got": to_jsonable(arr["arrays"]), "want": to_jsonable(want)}, "signature": dict(sig_base, oracle="I1_depolarized_formula", type=arr["type"])})
                    return
            if method == "none":
                ideal = workload.qobj_arrays(generate_qoperation(base[0], base[1], c_sys))
                if digest(ideal["arrays"]) != digest(arr["arrays"]):
                    viol.append({"oracle": "I1_depolarized_formula", "what": f"{which}: noiseless {label} differs from the catalogue object", "detail": {}, "signature": dict(sig_base, oracle="I1_depolarized_formula", type=arr["type"], noise="none")})
                    return
    # ---- H5: repetitions are independent draws
    for ri, (r, rr) in enumerate(zip(results, raw)):
        if (r.get("result_index") or {}).get("case_index", ri % n_cases) != 0:
            continue
        oc["H5"] = oc.get("H5", 0) + 1
        try:
            pds = rr.qtomography.calc_prob_dists(rr.simulation_setting.true_object)
        except Exception:
            continue
        cb = _collision_bound(pds, cfg["num_data"])
        digs = [digest(rep) for rep in r["empi"]]
        n_rep = len(digs)
        pairs = n_rep * (n_rep - 1) / 2
        m = n_rep - len(set(digs))  # repetitions that are copies of an earlier one
        # P(at least m coincidences among independent repetitions) <= (C(n_rep,2) * cb)^m  (forest of m equalities)
        if pairs * cb < 1e-12:
            pr["H5_decisive"] = pr.get("H5_decisive", 0) + 1
        else:
            pr["H5_trivial"] = pr.get("H5_trivial", 0) + 1
        if m > 0:
            p_event = (pairs * cb) ** m
            if p_event < 1e-12:
                viol.append({"oracle": "H5_repetitions_independent", "what": f"{which}: result {ri}: {m} of {n_rep} repetitions have empirical distributions identical to an earlier repetition (probability of that under independent draws <= {p_event:.1e})",
                             "detail": {"result": ri, "n_rep": n_rep, "copies": m, "pair_collision_bound": cb}, "signature": dict(sig_base, oracle="H5_repetitions_independent")})
                return
            pr["H5_undecided_coincidence"] = pr.get("H5_undecided_coincidence", 0) + 1
    # ---- H6: re-estimation from stored empirical distributions reproduces the stored estimates
    for ri, (r, rr) in enumerate(zip(results, raw)):
        oc["H6_memory"] = oc.get("H6_memory", 0) + 1
        try:
            re = qsim.re_estimate_sequence(ts, rr)
            got = [[np.array(v) for v in er.estimated_var_sequence] for er in re]
        except Exception as e:
            viol.append({"oracle": "H6_reestimate", "what": f"{which}: re_estimate_sequence raised {type(e).__name__}: {str(e)[:200]} for result {ri}", "detail": {}, "signature": dict(sig_base, oracle="H6_reestimate", exc=type(e).__name__)})
            return
        d = first_diff(r["estimates"], got, f"results[{ri}].estimates")
        if d:
            case = _case_of(cfg, r, ri)
            viol.append({"oracle": "H6_reestimate", "what": f"{which}: re-estimating result {ri} from its stored empirical distributions gives different estimates at {d[0]} (max abs diff {d[2]})",
                         "detail": {"field": d[0], "max_abs_diff": d[2], "case": case}, "signature": dict(sig_base, oracle="H6_reestimate", estimator=case["estimator"], loss=case.get("loss"), via="memory")})
            return
    # ---- H7: stored physicality verdict vs independent recomputation
    check_h7(cfg, run, viol, stats, sig_base, which, basis, dim)


def reestimate_from_dir(cfg, run, viol, stats, sig_base):
    """H6 through the files: re_estimate_test_settings on the written directory."""
    from quara.simulation import standard_qtomography_simulation_flow as qflow

    oc = stats["oracle_checks"]
    oc["H6_files"] = oc.get("H6_files", 0) + 1
    out2 = tempfile.mkdtemp(prefix="poolsim-re-", dir=env.scratch_root())
    try:
        re = qflow.re_estimate_test_settings(run["out_dir"], out2, pdf_mode="none", exec_sim_check=copy.deepcopy(cfg.get("exec_sim_check")))
        got = [workload.extract_result(r) for r in re]
    except Exception as e:
        viol.append({"oracle": "H6_reestimate", "what": f"re_estimate_test_settings raised {type(e).__name__}: {str(e)[:200]}", "detail": {}, "signature": dict(sig_base, oracle="H6_reestimate", exc=type(e).__name__, via="files")})
        return
    finally:
        shutil.rmtree(out2, ignore_errors=True)
    want = [{k: v for k, v in r.items() if k in ("estimates", "empi", "true_object")} for r in run["results"]]
    got = [{k: v for k, v in r.items() if k in ("estimates", "empi", "true_object")} for r in got]
    d = first_diff(want, got, "results")
    if d:
        viol.append({"oracle": "H6_reestimate", "what": f"re-estimating from the written result files gives different values at {d[0]} ({d[1]}, max abs diff {d[2]})",
                     "detail": {"field": d[0]}, "signature": dict(sig_base, oracle="H6_reestimate", via="files")})


def _estimate_defects(rr, basis, dim):
    """per (rep, num_data): (eq_defect, ineq_defect) of the stored estimate, from its raw arrays."""
    out = []
    for er in rr.estimation_results:
        row = []
        for q in er.estimated_qoperation_sequence:
            row.append(physicality_defect(workload.qobj_arrays(q), basis, dim))
        out.append(row)
    return out


def check_h7(cfg, run, viol, stats, sig_base, which, basis, dim):
    oc = stats["oracle_checks"]
    pr = stats["probes"]
    n_cases = len(cfg["cases"])
    for ri, (r, rr) in enumerate(zip(run["results"], run["raw_results"])):
        if not r["check"]:
            continue
        items = dict((k, v) for k, v in r["check"]["items"])
        if "Physicality Violation" not in items:
            continue
        verdict = items["Physicality Violation"]
        case = _case_of(cfg, r, ri)
        kind = case["estimator"]
        para = case["para"]
        eq_thr = 1e-13 if para else 1e-5
        ineq_thr = 1e-5
        if kind == "linear":
            enforce_eq, enforce_ineq = bool(para), False
        elif kind == "plinear":
            enforce_eq, enforce_ineq = True, True
        else:
            enforce_eq, enforce_ineq = case["algo"]["on_algo_eq_constraint"], case["algo"]["on_algo_ineq_constraint"]
        try:
            defects = _estimate_defects(rr, basis, dim)
        except Exception:
            continue
        oc["H7"] = oc.get("H7", 0) + 1
        clear_violation = False
        borderline = False
        for row in defects:
            for eq, ineq in row:
                for on, val, thr in ((enforce_eq, eq, eq_thr), (enforce_ineq, ineq, ineq_thr)):
                    if not on:
                        continue
                    # different but equivalent measures of the same defect can differ by a dimension factor
                    if val > 8 * thr + 1e-12:
                        clear_violation = True
                    elif val > thr / 8:
                        borderline = True
        if borderline and not clear_violation:
            pr["H7_undecided"] = pr.get("H7_undecided", 0) + 1
            continue
        want = not clear_violation
        pr["H7_verdict_ok" if want else "H7_verdict_ng"] = pr.get("H7_verdict_ok" if want else "H7_verdict_ng", 0) + 1
        if verdict != want:
            viol.append({"oracle": "H7_physicality_verdict", "what": f"{which}: result {ri} ({kind}, para={para}): stored Physicality Violation verdict is {verdict}, independent recomputation from the stored estimates says {want}",
                         "detail": {"case": case, "worst_eq": max(d[0] for row in defects for d in row), "worst_ineq": max(d[1] for row in defects for d in row), "eq_thr": eq_thr, "ineq_thr": ineq_thr},
                         "signature": dict(sig_base, oracle="H7_physicality_verdict", estimator=kind, verdict=verdict)})
            return


def check_after_crash(cfg, ref, run, si, viol, stats, sig):
    """fault kind crash_then_reestimate.  Relaxed oracle, stated narrowly: after a crash at a file write, re-estimation from
    whatever survived may raise (missing or torn files), but whatever it returns must carry the estimates of the serial
    reference for that (sample, case)."""
    from quara.simulation import standard_qtomography_simulation as qsim
    from quara.simulation import standard_qtomography_simulation_flow as qflow

    oc, pr = stats["oracle_checks"], stats["probes"]
    out_dir = run["out_dir"]
    want = {}
    for r in ref["results"]:
        ix = r["result_index"]
        want[(ix["sample_index"], ix["case_index"])] = r
    ts_path = os.path.join(out_dir, "0", "test_setting.pickle")
    # per surviving result file
    for root, _, files in os.walk(out_dir):
        for fn in sorted(files):
            if not (fn.startswith("case_") and fn.endswith("_result.pickle")):
                continue
            if os.path.relpath(os.path.join(root, fn), out_dir) not in set(run.get("disk_written", [])):
                continue  # a leftover of an earlier run (stale directory), not something this run stored
            oc["C1_crash_reestimate"] = oc.get("C1_crash_reestimate", 0) + 1
            path = os.path.join(root, fn)
            try:
                ests = qsim.re_estimate_sequence_from_path(ts_path, path)
                with open(path, "rb") as f:
                    stored = pickle.load(f)
            except Exception:
                pr["crash_survivor_unreadable"] = pr.get("crash_survivor_unreadable", 0) + 1
                continue
            pr["crash_survivor_reestimated"] = pr.get("crash_survivor_reestimated", 0) + 1
            ix = stored.result_index
            key = (ix["sample_index"], ix["case_index"])
            got = [[np.array(v) for v in er.estimated_var_sequence] for er in ests]
            if key not in want:
                viol.append({"oracle": "C1_crash_reestimate", "what": f"schedule {si}: surviving file {fn} claims result index {key} which the serial run does not have", "detail": {"schedule": si}, "signature": dict(sig, oracle="C1_crash_reestimate")})
                return
            d = first_diff(want[key]["estimates"], got, f"{os.path.relpath(path, out_dir)}.estimates")
            if d:
                viol.append({"oracle": "C1_crash_reestimate", "what": f"schedule {si}: after {run['crash']}, re-estimating the surviving {os.path.relpath(path, out_dir)} gives estimates that differ from the serial run at {d[0]} (max abs diff {d[2]})",
                             "detail": {"schedule": si, "crash": run["crash"], "field": d[0]}, "signature": dict(sig, oracle="C1_crash_reestimate")})
                return
    # whole-directory re-estimation: may raise, may not invent different numbers (only judged when every result file in the
    # directory was stored by this run: leftovers of an earlier run legitimately carry that run's numbers)
    all_cases = [os.path.relpath(os.path.join(r_, f_), out_dir) for r_, _, fs in os.walk(out_dir) for f_ in fs if f_.startswith("case_") and f_.endswith("_result.pickle")]
    if any(p_ not in set(run.get("disk_written", [])) for p_ in all_cases):
        return
    out2 = tempfile.mkdtemp(prefix="poolsim-crash-re-", dir=env.scratch_root())
    try:
        re = qflow.re_estimate_test_settings(out_dir, out2, pdf_mode="none", exec_sim_check=copy.deepcopy(cfg.get("exec_sim_check")))
        pr["crash_full_reestimate_returned"] = pr.get("crash_full_reestimate_returned", 0) + 1
        for r in re:
            e = workload.extract_result(r)
            key = (int(e["result_index"]["sample_index"]), int(e["result_index"]["case_index"]))
            d = first_diff(want[key]["estimates"], e["estimates"], f"reestimated[{key}].estimates") if key in want else ("index", "unknown result index", None)
            if d:
                viol.append({"oracle": "C1_crash_reestimate", "what": f"schedule {si}: after {run['crash']}, re_estimate_test_settings returned different estimates at {d[0]} (max abs diff {d[2]})",
                             "detail": {"schedule": si, "crash": run["crash"]}, "signature": dict(sig, oracle="C1_crash_reestimate", via="directory")})
                return
    except Exception:
        pr["crash_full_reestimate_raised"] = pr.get("crash_full_reestimate_raised", 0) + 1
    finally:
        shutil.rmtree(out2, ignore_errors=True)


MULTI_SYSTEMS = [
    ("qubit", 2, {"state": ["z0_z0", "bell_phi_plus", "x0_y1"], "povm": ["z_z", "x_y", "bell"], "gate": ["cx", "cz", "swap"]}),
    ("qutrit", 1, {"state": ["01z0", "0_1_2_superposition"], "povm": ["z3", "01x3"], "gate": ["01x90", "12z90"]}),
]


def check_noise_models_multi(cfg, rng, viol, stats, sig_base):
    """I1 on composite systems the flow configurations of this engine do not use (two qubits, one qutrit): the noise models
    must produce physical objects, and depolarising noise of rate p must mix the ideal object with the maximally mixed one
    in proportion p, whatever the number of elemental systems.  Cheap (no tomography is run on these systems)."""
    from quara.objects.composite_system_typical import generate_composite_system
    from quara.objects.qoperation_typical import generate_qoperation
    from quara.simulation.depolarized_qoperation_generation_setting import DepolarizedQOperationGenerationSetting
    from quara.simulation.random_effective_lindbladian_generation_setting import RandomEffectiveLindbladianGenerationSetting

    oc = stats["oracle_checks"]
    method = cfg["noise"][0]
    if method == "none":
        return
    mode, num, names = MULTI_SYSTEMS[rng.randrange(len(MULTI_SYSTEMS))]
    c_sys = generate_composite_system(mode, num)
    basis = _basis(c_sys)
    dim = c_sys.dim
    kind = rng.choice(["state", "povm", "gate"])
    name = rng.choice(names[kind])
    ids = {"ids": list(range(num))} if (kind == "gate" and name in ("cx",)) else {}
    try:
        ideal_obj = generate_qoperation(kind, name, c_sys, **ids)
    except Exception:
        return
    para = cfg["noise"][1]
    try:
        if method == "depolarized":
            setting = DepolarizedQOperationGenerationSetting(c_sys=c_sys, qoperation_base=ideal_obj, error_rate=para["error_rate"])
            got = setting.generate()
        else:
            setting = RandomEffectiveLindbladianGenerationSetting(c_sys=c_sys, qoperation_base=ideal_obj, lindbladian_base="identity",
                                                                  strength_h_part=para["strength_h_part"], strength_k_part=para["strength_k_part"])
            got = setting.generate(np.random.Generator(np.random.MT19937(cfg["seed_qoperation"])))
            got = got[0] if isinstance(got, tuple) else got
    except Exception as e:
        viol.append({"oracle": "I1_noise_model_physical", "what": f"noise model {method} raised {type(e).__name__}: {str(e)[:200]} for {kind} {name} on {num} {mode}(s)", "detail": {"noise": cfg["noise"][:2]},
                     "signature": dict(sig_base, oracle="I1_noise_model_physical", noise=method, type=kind, system=f"{num}{mode}", exc=type(e).__name__)})
        return
    arr = workload.qobj_arrays(got)
    # the first parallel level ships generation settings to worker processes by pickling: a setting that went through a
    # pickle round trip must generate the same object (named bases with explicit ids included)
    try:
        import cloudpickle

        oc["H1_setting_pickle_roundtrip"] = oc.get("H1_setting_pickle_roundtrip", 0) + 1
        kw = {"qoperation_base": (kind, name), "ids": list(reversed(range(num)))} if (num > 1 and kind == "gate" and name in ("cx", "zx90")) else {"qoperation_base": (kind, name)}
        if method == "depolarized":
            s1 = DepolarizedQOperationGenerationSetting(c_sys=c_sys, error_rate=para["error_rate"], **kw)
            a1 = workload.qobj_arrays(s1.generate())
            a2 = workload.qobj_arrays(pickle.loads(cloudpickle.dumps(s1)).generate())
        else:
            s1 = RandomEffectiveLindbladianGenerationSetting(c_sys=c_sys, lindbladian_base="identity", strength_h_part=para["strength_h_part"], strength_k_part=para["strength_k_part"], **kw)
            g = lambda: np.random.Generator(np.random.MT19937(cfg["seed_qoperation"]))
            o1 = s1.generate(g())
            o2 = pickle.loads(cloudpickle.dumps(s1)).generate(g())
            a1 = workload.qobj_arrays(o1[0] if isinstance(o1, tuple) else o1)
            a2 = workload.qobj_arrays(o2[0] if isinstance(o2, tuple) else o2)
        d = first_diff(a1, a2, "generated")
        if d:
            viol.append({"oracle": "H1_generated_objects", "what": f"a {method} generation setting for {kind} {name} on {num} {mode}(s) (ids {kw.get('ids')}) generates a different object after a pickle round trip (as a worker process receives it): {d[0]} max abs diff {d[2]}",
                         "detail": {"noise": cfg["noise"][:2], "ids": kw.get("ids")}, "signature": dict(sig_base, oracle="H1_generated_objects", via="pickle_roundtrip", system=f"{num}{mode}")})
            return
    except ImportError:
        pass
    oc["I1_physical_multi"] = oc.get("I1_physical_multi", 0) + 1
    eq, ineq = physicality_defect(arr, basis, dim)
    if eq > 1e-8 or ineq > 1e-8:
        viol.append({"oracle": "I1_noise_model_physical", "what": f"{method} noise on {kind} {name} ({num} {mode}): result is not physical (equality defect {eq:.2e}, positivity defect {ineq:.2e})",
                     "detail": {"noise": cfg["noise"][:2]}, "signature": dict(sig_base, oracle="I1_noise_model_physical", noise=method, type=arr["type"], system=f"{num}{mode}")})
        return
    if method == "depolarized":
        oc["I1_depolarized_multi"] = oc.get("I1_depolarized_multi", 0) + 1
        want = depolarized_expected(workload.qobj_arrays(ideal_obj), para["error_rate"], basis, dim)
        dev = max(float(np.max(np.abs(np.asarray(w) - np.asarray(g)))) for w, g in zip(want, arr["arrays"]))
        if dev > 1e-10:
            viol.append({"oracle": "I1_depolarized_formula", "what": f"depolarised {kind} {name} on {num} {mode}(s), p={para['error_rate']}: deviates from (1-p)*ideal + p*maximally-mixed by {dev:.2e}",
                         "detail": {"p": para["error_rate"]}, "signature": dict(sig_base, oracle="I1_depolarized_formula", type=arr["type"], system=f"{num}{mode}")})


def check_stored_equals_returned(cfg, run, viol, stats, sig_base):
    """H8: what the run stored is what it returned - every case pickle holds the in-memory result of that (sample, case), and
    the rows of every check_result.csv are the returned results' verdicts, in order."""
    import csv

    oc = stats["oracle_checks"]
    view = run["files"]["view"]
    by_key = {}
    for r in run["results"]:
        ix = r["result_index"]
        by_key[(ix["sample_index"], ix["case_index"])] = r
    for rel, item in sorted(view.items()):
        if item["kind"] == "SimulationResult":
            oc["H8_stored_equals_returned"] = oc.get("H8_stored_equals_returned", 0) + 1
            stored = item["value"]
            ix = stored["result_index"]
            key = (ix["sample_index"], ix["case_index"])
            want_name = f"{ix['test_setting_index']}/{ix['sample_index']}/case_{ix['case_index']}_result.pickle"
            if rel.replace(os.sep, "/") != want_name or key not in by_key:
                viol.append({"oracle": "H8_stored_equals_returned", "what": f"file {rel} holds the result with index {ix}", "detail": {"file": rel, "index": ix}, "signature": dict(sig_base, oracle="H8_stored_equals_returned", what="file_name")})
                return
            d = first_diff(by_key[key], stored, rel)
            if d:
                viol.append({"oracle": "H8_stored_equals_returned", "what": f"the stored result {rel} differs from the returned one at {d[0]} ({d[1]}, max abs diff {d[2]})", "detail": {"file": rel, "field": d[0]},
                             "signature": dict(sig_base, oracle="H8_stored_equals_returned", what="pickle")})
                return
    for rel, item in sorted(view.items()):
        if not rel.endswith("check_result.csv") or item["kind"] != "text":
            continue
        oc["H8_stored_equals_returned"] = oc.get("H8_stored_equals_returned", 0) + 1
        rows = list(csv.DictReader(io.StringIO(item["value"])))
        parts = rel.replace(os.sep, "/").split("/")
        if len(parts) == 1 or len(parts) == 2:
            want = list(run["results"])
        else:
            want = [r for r in run["results"] if str(r["result_index"]["sample_index"]) == parts[1]]
        if len(rows) != len(want):
            viol.append({"oracle": "H8_stored_equals_returned", "what": f"{rel} has {len(rows)} rows for {len(want)} returned results", "detail": {"file": rel}, "signature": dict(sig_base, oracle="H8_stored_equals_returned", what="csv_rows")})
            return
        for k, (row, r) in enumerate(zip(rows, want)):
            ix = r["result_index"]
            exp = {"test_setting_index": str(ix["test_setting_index"]), "sample_index": str(ix["sample_index"]), "case_index": str(ix["case_index"]), "name": r["name"], "total_result": str(r["check"]["total"])}
            for cname, cres in r["check"]["items"]:
                exp[cname] = str(cres)
            bad = [c for c, v in exp.items() if row.get(c) != v]
            if bad:
                viol.append({"oracle": "H8_stored_equals_returned", "what": f"{rel} row {k}: column {bad[0]} is {row.get(bad[0])!r}, the returned result says {exp[bad[0]]!r}", "detail": {"file": rel, "row": k, "columns": bad},
                             "signature": dict(sig_base, oracle="H8_stored_equals_returned", what="csv_value")})
                return
