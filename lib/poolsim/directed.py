"""Directed configurations: the schedule-sensitive shapes are always present in a batch, whatever VERIF_SEED is.
Only the configuration is fixed; schedules and faults are still drawn from the run seed."""
from poolsim import workload


def _lossmin(loss, mode_weight="identity", para=True, max_iteration=60, eq=True, ineq=True):
    return {"estimator": "lossmin", "para": para, "eps_proj_physical": 1e-9, "loss": loss, "mode_weight": mode_weight,
            "algo": {"on_algo_eq_constraint": eq, "on_algo_ineq_constraint": ineq, "mode_stopping": "sum_absolute_difference_variable", "num_history": 1, "eps": 1e-9,
                     "mode_proj_order": "eq_ineq", "max_iteration": max_iteration}}


def config(name, rng, tier, seed=0):
    base = {
        "entry": "flow", "unknown": ["state", rng.choice(["a", "x0", "z0"])], "noise": ["lindbladian", {"lindbladian_base": "identity", "strength_h_part": 0.1, "strength_k_part": 0.1},
                                                                                         {"lindbladian_base": "identity", "strength_h_part": 0.1, "strength_k_part": 0.1}],
        "n_sample": 1, "n_rep": 4, "num_data": [100, 1000], "seed_data": 777, "seed_qoperation": 888, "exec_sim_check": None, "is_computation_time_required": True,
    }
    if name == "nested_threads_lossmin":
        # process level, then threads sharing the case's estimator / loss / algorithm objects (defect D2's shape)
        base["cases"] = [_lossmin(rng.choice(["fast_se", "fast_re"])), _lossmin(rng.choice(["fast_re", "se"]), para=False)]
        base["parallel_mode"] = rng.choice([{"per_estimator_unit": 2, "per_estimator_execution": 4}, {"per_sample_unit": 2, "per_estimator_execution": 3},
                                            {"per_data_generation": 2, "per_estimator_unit": 2, "per_estimator_execution": 2}])
        base["n_sample"] = 2
        return base
    if name == "nested_threads_weighted":
        # data-dependent weights (derived from every repetition's data) while the repetitions of one case are estimated
        # by threads that share the case's option objects
        base["cases"] = [_lossmin(rng.choice(["fast_se", "se"]), mode_weight=rng.choice(["inverse_sample_covariance", "inverse_unbiased_covariance"]), max_iteration=20),
                         _lossmin("fast_se", mode_weight="inverse_sample_covariance", para=False, max_iteration=20)]
        base["parallel_mode"] = rng.choice([{"per_estimator_unit": 2, "per_estimator_execution": 3}, {"per_sample_unit": 2, "per_estimator_execution": 2},
                                            {"per_sample_unit": 2, "per_data_generation": 2, "per_estimator_execution": 4}, {"per_estimator_unit": 2, "per_estimator_execution": 2}])
        base["n_sample"] = 2
        # more repetitions than twice the number of threads: a thread can still be busy with an early repetition while the
        # others have gone through several later ones
        base["n_rep"] = 6 if base["parallel_mode"]["per_estimator_execution"] == 2 else 4
        base["num_data"] = [100, 1000]
        return base
    if name == "batching_weighted_loss":
        # repetitions carried through one loss object inside a batch but not across batches (defect D3's shape)
        base["cases"] = [_lossmin("fast_se", mode_weight=rng.choice(["inverse_sample_covariance", "inverse_unbiased_covariance"])), _lossmin("se", mode_weight="inverse_sample_covariance", max_iteration=20)]
        base["parallel_mode"] = {"per_estimator_execution": rng.choice([2, 3, 4])}
        base["n_rep"] = 5
        return base
    if name == "four_levels":
        base["cases"] = [{"estimator": "linear", "para": True, "eps_proj_physical": 1e-9}, {"estimator": "plinear", "para": False, "eps_proj_physical": 1e-3, "mode_proj_order": "ineq_eq"}, _lossmin("fast_re", max_iteration=30)]
        base["parallel_mode"] = {"per_sample_unit": rng.choice([2, 3]), "per_data_generation": rng.choice([2, 4]), "per_estimator_unit": rng.choice([2, 3]), "per_estimator_execution": rng.choice([2, 4])}
        base["n_sample"] = 3
        base["unknown"] = rng.choice([["state", "a"], ["povm", "z"], ["gate", "x90"]])
        if base["unknown"][0] != "state":
            base["num_data"] = [100]
            base["n_rep"] = 3
        return base
    if name == "single_int_seed":
        # the single-setting entry point with the default integer data seed (defect D1's shape)
        base.update(entry="single", cases=[rng.choice([{"estimator": "linear", "para": True, "eps_proj_physical": 1e-9}, _lossmin("fast_se", max_iteration=30)])], parallel_mode={},
                    seed_kind=rng.choice(["int_default", "int_arg"]), init_with_seed=rng.random() < 0.5, seed_data=rng.choice([0, 7, 777]))
        return base
    if name == "single_povmt":
        base.update(entry="single", unknown=["povm", rng.choice(["x", "z"])], cases=[{"estimator": "linear", "para": True, "eps_proj_physical": 1e-9}], parallel_mode={},
                    seed_kind=rng.choice(["int_default", "generator"]), init_with_seed=True, num_data=[100])
        return base
    if name == "nested_threads_matrix":
        # the nested (thread) level for every kind of unknown and estimator: the shared tomography object, composite system,
        # template objects and option objects are touched by several threads
        # the directed seed walks through the grid (unknown type x estimator pair) so that every combination is present
        grid = [(u, k) for u in ("gate", "state", "povm", "mprocess", "gate") for k in (("plinear", "lossmin"), ("linear", "plinear"), ("lossmin", "lossmin"))]
        ut, kinds_fixed = grid[seed % len(grid)]
        base["unknown"] = [ut, rng.choice(workload.UNKNOWNS[ut])]
        base["noise"] = rng.choice([["none", {}, {}], ["depolarized", {"error_rate": 0.05}, {"error_rate": 0.02}]])
        kinds = list(kinds_fixed)
        cases = []
        for k in kinds:
            if k == "lossmin":
                cases.append(_lossmin(rng.choice(["fast_se", "fast_re"]), para=rng.random() < 0.5, max_iteration=15, eq=rng.random() < 0.8, ineq=rng.random() < 0.8))
            else:
                cases.append({"estimator": k, "para": rng.random() < 0.5, "eps_proj_physical": rng.choice([1e-9, 1e-4]), "mode_proj_order": rng.choice(["eq_ineq", "ineq_eq"])})
        base["cases"] = cases
        base["share_options"] = True
        workload.normalise_shared_options(base)
        base["num_data"] = [100] if ut in ("gate", "mprocess") else [100, 1000]
        base["n_rep"] = 3
        base["n_sample"] = 2
        base["parallel_mode"] = rng.choice([{"per_sample_unit": 2, "per_estimator_execution": 2}, {"per_sample_unit": 2, "per_estimator_unit": 2}, {"per_sample_unit": 2, "per_data_generation": 2, "per_estimator_execution": 3},
                                            {"per_data_generation": 2, "per_estimator_unit": 2, "per_estimator_execution": 2}])
        return base
    if name == "parent_tolerance":
        # the caller set a non-default global tolerance before the run; worker processes must behave as the caller does
        base["unknown"] = ["gate", rng.choice(["z90", "x90", "identity"])]
        base["noise"] = ["none", {}, {}]
        base["cases"] = [{"estimator": "plinear", "para": True, "eps_proj_physical": 1e-9, "mode_proj_order": "eq_ineq"}, {"estimator": "linear", "para": True, "eps_proj_physical": 1e-9}]
        base["num_data"] = [100]
        base["n_rep"] = 2
        base["n_sample"] = 2
        base["parent_atol"] = rng.choice([1e-6, 1e-4])
        base["parallel_mode"] = rng.choice([{"per_sample_unit": 2}, {"per_estimator_unit": 2}, {"per_data_generation": 2, "per_estimator_execution": 2}])
        return base
    if name == "two_settings":
        # one call handles two test settings: what each yields must not depend on the other
        ut = rng.choice(["state", "state", "povm", "gate"])
        base["unknown"] = [ut, rng.choice(workload.UNKNOWNS[ut])]
        base["noise"] = rng.choice([["none", {}, {}], ["depolarized", {"error_rate": 0.1}, {"error_rate": 0.02}], base["noise"]])
        base["cases"] = [{"estimator": "linear", "para": True, "eps_proj_physical": 1e-9}, {"estimator": "plinear", "para": False, "eps_proj_physical": 1e-9, "mode_proj_order": "eq_ineq"}]
        if ut == "state":
            base["cases"].append(_lossmin("fast_se", mode_weight=rng.choice(["identity", "inverse_sample_covariance"]), max_iteration=30))
        base["num_data"] = [100] if ut == "gate" else [100, 1000]
        base["n_rep"] = 2
        base["n_sample"] = rng.choice([1, 2])
        base["seed_data"] = rng.choice([0, 7, 777])
        base["parallel_mode"] = rng.choice([{"per_sample_unit": 2}, {"per_estimator_unit": 2}, {"per_data_generation": 2, "per_estimator_execution": 2}, {"per_sample_unit": 2, "per_estimator_unit": 2}])
        base["exec_sim_check"] = rng.choice([None, {"consistency": False, "mse_of_estimators": False, "mse_of_empi_dists": False, "physicality_violation": True}])
        base["companion"] = workload.gen_companion(rng, base)
        return base
    raise ValueError(name)
