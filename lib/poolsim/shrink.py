"""Shrinking of poolsim records: fewer schedules, then a smaller configuration, then fewer decisions."""
import copy

from simcore.ddmin import drop_chunks


def _with(record, **kw):
    r = copy.deepcopy(record)
    r.update(kw)
    return r


def shrink_candidates(record):
    cfg = record["config"]
    scheds = record.get("schedules", [])
    # 1. keep a single schedule
    if len(scheds) > 1:
        for i in range(len(scheds)):
            yield _with(record, schedules=[scheds[i]])
    # 2. smaller configuration (decisions that no longer fit fall back to the trivial choice)
    def cfg_variant(**kw):
        c = copy.deepcopy(cfg)
        c.update(kw)
        return _with(record, config=c)

    if len(cfg["cases"]) > 1:
        for i in range(len(cfg["cases"])):
            yield cfg_variant(cases=[cfg["cases"][i]])
        for i in range(len(cfg["cases"])):
            yield cfg_variant(cases=cfg["cases"][:i] + cfg["cases"][i + 1:])
    if cfg.get("n_sample", 1) > 1:
        yield cfg_variant(n_sample=1)
    if cfg.get("n_rep", 1) > 2:
        yield cfg_variant(n_rep=2)
        yield cfg_variant(n_rep=cfg["n_rep"] - 1)
    if len(cfg["num_data"]) > 1:
        for i in range(len(cfg["num_data"])):
            yield cfg_variant(num_data=[cfg["num_data"][i]])
    if cfg["num_data"] and min(cfg["num_data"]) > 10:
        yield cfg_variant(num_data=[10] if len(cfg["num_data"]) == 1 else sorted(set([10] + cfg["num_data"][1:])))
    if cfg.get("parent_atol"):
        c = copy.deepcopy(cfg)
        c.pop("parent_atol")
        yield _with(record, config=c)
    if cfg["noise"][0] != "none":
        yield cfg_variant(noise=["none", {}])
    if cfg.get("exec_sim_check") is not None and cfg["exec_sim_check"].get("consistency", True):
        yield cfg_variant(exec_sim_check={"consistency": False, "mse_of_estimators": False, "mse_of_empi_dists": False, "physicality_violation": True})
    pm = cfg.get("parallel_mode") or {}
    for k, v in pm.items():
        if v > 1:
            p2 = dict(pm)
            p2[k] = 1
            yield cfg_variant(parallel_mode=p2)
    for k, v in pm.items():
        if v > 2:
            p2 = dict(pm)
            p2[k] = 2
            yield cfg_variant(parallel_mode=p2)
    # 3. fewer decisions inside the remaining schedule(s)
    for si, s in enumerate(scheds):
        if s.get("crash") and isinstance(s["crash"], dict) and s["crash"].get("torn") is not None:
            s2 = copy.deepcopy(s)
            s2["crash"]["torn"] = None
            yield _with(record, schedules=scheds[:si] + [s2] + scheds[si + 1:])
        if s.get("stale_dir") and (s.get("proc") or s.get("threads") or s.get("pollution") or s.get("clock")):
            s2 = copy.deepcopy(s)
            s2.update(proc=[], threads=[], pollution=[], clock=[])
            yield _with(record, schedules=scheds[:si] + [s2] + scheds[si + 1:])
        for key in ("pollution", "clock"):
            if s.get(key):
                s2 = copy.deepcopy(s)
                s2[key] = []
                yield _with(record, schedules=scheds[:si] + [s2] + scheds[si + 1:])
        if s.get("proc"):
            s2 = copy.deepcopy(s)
            s2["proc"] = []
            yield _with(record, schedules=scheds[:si] + [s2] + scheds[si + 1:])
            for pi in range(len(s["proc"])):
                s2 = copy.deepcopy(s)
                del s2["proc"][pi]
                yield _with(record, schedules=scheds[:si] + [s2] + scheds[si + 1:])
        for ti, t in enumerate(s.get("threads", [])):
            if t.get("switches"):
                for sub in drop_chunks(t["switches"]):
                    s2 = copy.deepcopy(s)
                    s2["threads"][ti]["switches"] = sub
                    yield _with(record, schedules=scheds[:si] + [s2] + scheds[si + 1:])
        if s.get("line_set", "none") != "none" and not any(t.get("switches") for t in s.get("threads", [])):
            s2 = copy.deepcopy(s)
            s2["line_set"] = "none"
            yield _with(record, schedules=scheds[:si] + [s2] + scheds[si + 1:])
