"""poolsim: quara's Monte-Carlo simulation flow under a simulated joblib pool, clock and disk (C15).

One run = one configuration (drawn from the seed) executed once serially (reference) and then under
several simulated schedules / fault scripts; every schedule is compared field by field with the
reference (DESIGN.md section 3)."""
import copy
import os
import pickle
import random as pyrandom
import shutil
import tempfile

import numpy as np

import joblib

from simcore import env
from simcore.util import digest, rng_for, to_jsonable

from poolsim import oracles, workload
from poolsim.simpool import Decider, DiskSeam, EntryPollution, InjectedTaskFault, ProcGlobals, Sim, SimAbort, SimClock, SimCrash, SimParallelFactory

import quara
from quara.settings import Settings
import quara.data_analysis.physicality_violation_check as pvc
from quara.simulation import standard_qtomography_simulation as qsim
from quara.simulation import standard_qtomography_simulation_flow as qflow

QUARA_DIR = os.path.dirname(os.path.abspath(quara.__file__)) + os.sep

from poolsim.simpool import module_state_baseline  # noqa: E402

module_state_baseline()  # capture the import-time module state before any run touches it

from poolsim.static import mutator_functions  # noqa: E402

MUTATORS = mutator_functions(QUARA_DIR)

TIME_MODULES = [
    "quara.protocol.qtomography.standard.projected_linear_estimator",
    "quara.protocol.qtomography.standard.loss_minimization_estimator",
    "quara.protocol.qtomography.standard.linear_estimator",
    "quara.minimization_algorithm.projected_gradient_descent_with_momentum",
    "quara.minimization_algorithm.projected_fast_iterative_shrinkage_thresholding_algorithm",
    "quara.minimization_algorithm.projected_gradient_descent_backtracking",
    "quara.data_analysis.data_analysis",
    "quara.simulation.standard_qtomography_simulation_flow",
]
LINE_FILE_SETS = {
    "none": (),
    "loss_algo": ("loss_function.py", "probability_based_loss_function.py", "weighted_probability_based_squared_error.py", "weighted_relative_entropy.py",
                  "standard_qtomography_based_weighted_probability_based_squared_error.py", "standard_qtomography_based_weighted_relative_entropy.py",
                  "projected_gradient_descent.py", "projected_gradient_descent_backtracking.py", "minimization_algorithm.py", "loss_minimization_estimator.py"),
    "csys": ("composite_system.py",),
    "simulation": ("standard_qtomography_simulation.py", "standard_qtomography_simulation_flow.py", "standard_qtomography_simulation_check.py"),
    "protocol": ("linear_estimator.py", "projected_linear_estimator.py", "standard_qtomography_estimator.py", "standard_qtomography.py", "standard_qst.py", "standard_povmt.py",
                 "standard_qpt.py", "standard_qmpt.py", "qtomography.py", "experiment.py", "data_generator.py", "number_util.py"),
    "objects": ("qoperation.py", "state.py", "povm.py", "gate.py", "mprocess.py", "operators.py", "matrix_basis.py", "elemental_system.py"),
}


class _Patches:
    """installs the seams for one execution and removes them afterwards."""

    def __init__(self, sim, clock, disk=None):
        self.sim = sim
        self.clock = clock
        self.disk = disk
        self.saved = []

    def __enter__(self):
        import importlib

        self.saved.append((joblib, "Parallel", joblib.Parallel))
        joblib.Parallel = SimParallelFactory(self.sim)
        for name in TIME_MODULES:
            m = importlib.import_module(name)
            self.saved.append((m, "time", m.time))
            m.time = self.clock
        if self.disk is not None:
            for m in (qsim, qflow):
                self.saved.append((m, "open", getattr(m, "open", None)))
                m.open = self.disk
            # the CSV files are written by pandas: route those writes through the same disk seam
            import pandas as pd

            orig = pd.DataFrame.to_csv
            disk = self.disk

            def to_csv(df, path_or_buf=None, *a, **kw):
                if isinstance(path_or_buf, (str, os.PathLike)) and str(path_or_buf).startswith(disk.out_dir):
                    with disk(str(path_or_buf), "w", newline="") as f:
                        return orig(df, f, *a, **kw)
                return orig(df, path_or_buf, *a, **kw)

            self.saved.append((pd.DataFrame, "to_csv", orig))
            pd.DataFrame.to_csv = to_csv
        return self

    def __exit__(self, *exc):
        for obj, attr, val in reversed(self.saved):
            if attr == "open" and val is None:
                delattr(obj, attr)
            else:
                setattr(obj, attr, val)
        return False


def _pollution_from(script, stats):
    """script: list of [parallel_boundary_index, kind, arg]; fired in the parent / worker at Parallel boundaries."""
    state = {"n": 0, "left": [list(s) for s in script]}

    def fire(sim, where):
        i = state["n"]
        state["n"] += 1
        for s in list(state["left"]):
            if s[0] == i:
                state["left"].remove(s)
                kind, arg = s[1], s[2]
                if kind == "draws":
                    np.random.random(arg)
                elif kind == "reseed":
                    np.random.seed(arg)
                elif kind == "py_reseed":
                    pyrandom.seed(arg)
                stats["global_rng_pollution"] = stats.get("global_rng_pollution", 0) + 1

    return fire


def execute_flow(cfg, schedule=None, rng=None, max_yields=None, keep_dir=False, parent_seed=0):
    """runs execute_simulation_test_settings once.
    schedule None            -> serial reference (parallel_mode=None, no faults)
    schedule + rng           -> generate mode: proc/thread decisions are drawn from rng and written into `schedule`
    schedule without rng     -> replay mode: every decision is read from `schedule`"""
    is_ref = schedule is None
    stats_f, stats_p = {}, {}
    clock = SimClock(script=[] if is_ref else schedule.get("clock", []))
    if is_ref:
        decider = Decider(record={"proc": [], "threads": []})
        pollution = None
        line_set = "none"
    else:
        if rng is None:
            decider = Decider(record=schedule)
        else:
            decider = Decider(rng=rng, policy=schedule.get("policy"))
        pollution = _pollution_from(schedule.get("pollution", []), stats_f)
        line_set = schedule.get("line_set", "none")
    out_dir = tempfile.mkdtemp(prefix="poolsim-", dir=env.scratch_root())
    sim = Sim(decider, clock, QUARA_DIR, max_yields=max_yields, line_files=LINE_FILE_SETS.get(line_set, ()), out_dir=out_dir,
              probes=stats_p, faults=stats_f, proc_seed=parent_seed + 17, pollution=pollution, mutators=MUTATORS if line_set == "mutators" else None,
              xpol=None if is_ref else schedule.get("xpol"))
    cwd_before = os.getcwd()
    if not is_ref and schedule.get("worker_cwd"):
        # at another depth of the tree than the caller's directory, so that a relative path means something else there
        sim.worker_cwd = os.path.join(tempfile.mkdtemp(prefix="poolsim-wcwd-", dir=env.scratch_root()), "started", "here")
        os.makedirs(sim.worker_cwd)
        os.chdir(tempfile.mkdtemp(prefix="poolsim-pcwd-", dir=env.scratch_root()))
    test_setting = workload.build_test_setting(cfg)
    if not is_ref and schedule.get("stale_dir"):
        # fault kind stale_output_dir: the output directory still holds the files of an earlier run made with other seeds
        stale_cfg = dict(cfg, seed_data=cfg["seed_data"] + 1, seed_qoperation=cfg["seed_qoperation"] + 1, cases=[dict(c, para=not c["para"]) for c in cfg["cases"]])
        with _Patches(Sim(Decider(record={"proc": [], "threads": []}), SimClock(), QUARA_DIR, out_dir=out_dir), SimClock()):
            qflow.execute_simulation_test_settings([workload.build_test_setting(stale_cfg)], out_dir, pdf_mode="none", exec_sim_check=copy.deepcopy(cfg.get("exec_sim_check")), parallel_mode=None,
                                                   is_computation_time_required=cfg.get("is_computation_time_required", True))
        stats_f["stale_output_dir"] = 1
    crash = None if is_ref else schedule.get("crash")
    disk = DiskSeam(out_dir, crash_at=(crash or {}).get("at_write"), torn=(crash or {}).get("torn"), enospc_at=None if is_ref else schedule.get("enospc_at"))
    disk.sim = sim
    saved = ProcGlobals.capture()
    ProcGlobals(np_seed=(parent_seed * 2654435761 + 12345) % (2 ** 32), py_seed=parent_seed + 99).install()
    if cfg.get("parent_atol"):
        Settings.set_atol(cfg["parent_atol"])  # the caller changed the global tolerance before building its settings
        test_setting = workload.build_test_setting(cfg)
    res = {"ok": True}
    tf = [] if is_ref else (schedule.get("task_fault") or [])
    tf_targets = {"_execute_estimation": qsim._execute_estimation.__code__, "execute_simulation_case_unit": qflow.execute_simulation_case_unit.__code__}
    try:
        with _Patches(sim, clock, disk), EntryPollution(tf, tf_targets, stats_f):
            pm = None if is_ref else (dict(cfg["parallel_mode"]) or None)
            settings_list, main_idx = [test_setting], 0
            if cfg.get("companion"):
                # another test setting handled by the same call, before or after the one under study
                comp = workload.build_test_setting(workload.companion_config(cfg))
                settings_list, main_idx = ([comp, test_setting], 1) if cfg["companion"]["position"] == "before" else ([test_setting, comp], 0)
            results = qflow.execute_simulation_test_settings(
                settings_list, out_dir, pdf_mode="none", exec_sim_check=copy.deepcopy(cfg.get("exec_sim_check")), parallel_mode=pm,
                is_computation_time_required=cfg.get("is_computation_time_required", True),
            )
        if cfg.get("companion"):
            stats_p["two_test_settings_in_one_call"] = 1
            results = [r for r in results if r.result_index["test_setting_index"] == main_idx]
            for r in results:
                r.result_index = dict(r.result_index, test_setting_index=0)
        res["results"] = [workload.extract_result(r) for r in results]
        res["raw_results"] = results
        res["test_setting"] = test_setting
        res["files"] = oracles.read_output_dir(out_dir)
        if cfg.get("companion"):
            # only the files of the setting under study, under the name they have when it is run alone
            pre = str(main_idx) + os.sep
            res["files"] = {key: {"0" + os.sep + k[len(pre):]: v for k, v in val.items() if k.startswith(pre)} for key, val in res["files"].items()}
        res["globals_after"] = {"atol": Settings.get_atol() if not cfg.get("parent_atol") else 1e-13, "ineq_eps": pvc.get_ineq_const_eps()}
    except SimAbort as e:
        res = {"ok": False, "abort": str(e)}
    except OSError as e:
        if disk.enospc_fired:
            # a transient disk-full error: the only acceptable outcome is that the run fails with it
            res = {"ok": False, "task_fault_propagated": f"OSError {e.errno}"}
            stats_f["disk_full"] = stats_f.get("disk_full", 0) + 1
        else:
            import traceback

            res = {"ok": False, "exception": f"{type(e).__name__}: {str(e)[:300]}", "trace": traceback.format_exc()[-1500:]}
    except InjectedTaskFault as e:
        # the only acceptable outcome of a failed task: the run fails with that error (nothing is returned)
        res = {"ok": False, "task_fault_propagated": str(e)}
    except SimCrash as e:
        res = {"ok": False, "crash": str(e), "test_setting": test_setting}
        stats_f["crash_at_file_write"] = stats_f.get("crash_at_file_write", 0) + 1
        if (crash or {}).get("torn") is not None:
            stats_f["torn_write"] = stats_f.get("torn_write", 0) + 1
    except Exception as e:
        import traceback

        res = {"ok": False, "exception": f"{type(e).__name__}: {str(e)[:300]}", "trace": traceback.format_exc()[-1500:]}
    finally:
        saved.install()
        if os.getcwd() != cwd_before:
            os.chdir(cwd_before)
        if sim.worker_cwd:
            res_stray = [f for _, _, fs in os.walk(os.path.dirname(os.path.dirname(sim.worker_cwd))) for f in fs]
            if res_stray:
                stats_p["files_landed_in_a_worker_cwd"] = len(res_stray)
    if disk.enospc_fired and res.get("ok"):
        stats_f["disk_full"] = stats_f.get("disk_full", 0) + 1
        stats_p["run_returned_despite_disk_full"] = stats_p.get("run_returned_despite_disk_full", 0) + 1
    res["disk_writes"] = disk.writes
    res["disk_written"] = list(disk.written)
    res["out_dir"] = out_dir
    res["sim"] = sim
    res["clock"] = clock
    res["faults"] = stats_f
    res["probes"] = stats_p
    if not is_ref and rng is not None:
        cleaned = _clean_schedule(decider.rec)
        schedule["proc"], schedule["threads"] = cleaned["proc"], cleaned["threads"]
    if not keep_dir:
        shutil.rmtree(out_dir, ignore_errors=True)
    return res


def _clean_schedule(rec):
    out = {"proc": [], "threads": [], "pollution": rec.get("pollution", []), "clock": rec.get("clock", [])}
    if rec.get("crash"):
        out["crash"] = rec["crash"]
    if rec.get("stale_dir"):
        out["stale_dir"] = True
    if rec.get("worker_cwd"):
        out["worker_cwd"] = True
    if rec.get("task_fault"):
        out["task_fault"] = rec["task_fault"]
    if rec.get("enospc_at"):
        out["enospc_at"] = rec["enospc_at"]
    for e in rec.get("proc", []):
        out["proc"].append({k: v for k, v in e.items() if not k.startswith("_")})
    for e in rec.get("threads", []):
        out["threads"].append({k: v for k, v in e.items() if not k.startswith("_")})
    for k in ("policy", "line_set", "parent_seed", "xpol"):
        if k in rec:
            out[k] = rec[k]
    return out


def gen_fault_script(rng, fault_free):
    if fault_free:
        return [], []
    pollution = []
    if rng.random() < 0.6:
        for _ in range(rng.randint(1, 4)):
            kind = rng.choice(["draws", "draws", "reseed", "py_reseed"])
            pollution.append([rng.randrange(0, 24), kind, rng.choice([1, 3, 100]) if kind == "draws" else rng.randrange(5)])
    clock = []
    if rng.random() < 0.5:
        for _ in range(rng.randint(1, 4)):
            clock.append([rng.randrange(1, 200), rng.choice([3600.0, -3600.0, -0.5, 86400.0, -1e-3])])
        clock.sort()
    return pollution, clock


def run_record(record, want_record=True, gen=None):
    """evaluates one record.  gen=None: pure replay of record["schedules"].  gen={"seed","tier","fault_free","n"}: the
    schedules are generated while they are executed and appended to the record (one execution per schedule)."""
    cfg = record["config"]
    if cfg.get("entry", "flow") == "single":
        from poolsim import single

        return single.run_record(record, want_record)
    stats = {"faults": {}, "probes": {}, "oracle_checks": {}, "steps": 0, "sim_time": 0.0}
    viol = []
    log = []
    sched_keys = []
    nontrivial = False

    def merge(dst, src):
        for k, v in src.items():
            dst[k] = dst.get(k, 0) + v

    sig_base = {"engine": "poolsim", "entry": "flow"}
    # ---- reference: the same call made serially, pristine globals, monotone clock
    ref = execute_flow(cfg, parent_seed=1, keep_dir=True)
    try:
        if not ref["ok"]:
            # the serial run itself fails: not a schedule question.  A well-formed configuration must run.
            viol.append({"oracle": "H0_serial_run_fails", "what": f"serial reference run failed: {ref.get('exception') or ref.get('abort')}",
                         "detail": {"trace": ref.get("trace")}, "signature": dict(sig_base, oracle="H0_serial_run_fails", exc=(ref.get("exception") or "abort").split(":")[0])})
            return _finish(record, viol, log, sched_keys, stats, nontrivial, want_record)
        stats["steps"] += 1
        log.append(["ref", digest(ref["results"]), digest(ref["files"]["digest_view"])])
        # ---- invariants / history oracles on the reference itself
        atol_saved = Settings.get_atol()
        try:
            if cfg.get("parent_atol"):
                Settings.set_atol(cfg["parent_atol"])  # re-estimation happens in the same session as the run
            oracles.check_run_internal(cfg, ref, viol, stats, sig_base, which="reference")
            if not viol and not cfg.get("companion"):
                oracles.reestimate_from_dir(cfg, ref, viol, stats, sig_base)
            if not viol and not cfg.get("companion"):
                oracles.check_stored_equals_returned(cfg, ref, viol, stats, sig_base)
            if not viol and cfg.get("companion"):
                # H9: what a test setting yields is a function of that setting and its seeds - not of the other settings
                # the same call handles
                alone = execute_flow({k: v for k, v in cfg.items() if k != "companion"}, parent_seed=1)
                stats["steps"] += 1
                stats["oracle_checks"]["H9"] = stats["oracle_checks"].get("H9", 0) + 1
                if not alone["ok"]:
                    viol.append({"oracle": "H0_serial_run_fails", "what": f"serial run of the setting alone failed: {alone.get('exception') or alone.get('abort')}", "detail": {"trace": alone.get("trace")},
                                 "signature": dict(sig_base, oracle="H0_serial_run_fails", exc=(alone.get("exception") or "abort").split(":")[0])})
                else:
                    d = oracles.first_diff(alone["results"], ref["results"], "results")
                    if d:
                        viol.append({"oracle": "H9_setting_isolation", "what": f"a test setting handled {cfg['companion']['position']} another one in the same call gives other results than alone: {d[0]} ({d[1]}, max abs diff {d[2]})",
                                     "detail": {"field": d[0], "companion": cfg["companion"]}, "signature": dict(sig_base, oracle="H9_setting_isolation", position=cfg["companion"]["position"])})
        finally:
            Settings.set_atol(atol_saved)
        if not viol:
            oracles.check_noise_models_multi(cfg, rng_for(record.get("seed", 0), "poolsim-multi"), viol, stats, sig_base)
    finally:
        shutil.rmtree(ref["out_dir"], ignore_errors=True)
    # ---- schedules
    n_sched = gen["n"] if gen else len(record["schedules"])
    est = None
    yields_done = {}  # pre-emption granularity (line set) -> yield points of a completed schedule of this run
    for si in range(n_sched):
        if viol:
            break
        if gen:
            rng = rng_for(gen["seed"], f"poolsim-sched-{si}")
            sched = gen_schedule_header(rng, cfg, gen["fault_free"], est, si)
            if not gen["fault_free"]:
                # extended policy, drawn from a stream of its own: file opens / closes as scheduling points of the thread
                # level; pre-emption of a thread right after it assigned an attribute that another thread assigned last
                xr = rng_for(gen["seed"], f"poolsim-xpol-{si}")
                xp = {"salt": xr.randrange(1 << 30)}
                if xr.random() < 0.5:
                    xp.update(io_yield=True, io_rate=xr.choice([0.2, 0.5, 0.8]))
                if xr.random() < 0.6:
                    xp.update(race_probe=True, race_rate=xr.choice([0.3, 0.7, 1.0]), race_quantum=xr.choice([0, 3000, 30000, 10 ** 9]))
                sched["xpol"] = xp
            record["schedules"].append(sched)
        else:
            rng = None
            sched = record["schedules"][si]
        if sched.get("fault_free"):
            rng = None  # trivial decisions: the replay fallback (one batch, worker 0, FIFO, no switch)
        if gen and sched.get("enospc_at") == "pending":
            sched["enospc_at"] = rng.randint(2, max(2, ref.get("disk_writes", 2)))
        if gen and sched.get("crash") == "pending":
            sched["crash"] = {"at_write": rng.randint(1, max(1, ref.get("disk_writes", 1))), "torn": rng.choice([None, None, 0.0, 0.5, 0.9])}
        is_crash = bool(sched.get("crash"))
        run = execute_flow(cfg, schedule=sched, rng=rng, max_yields=record.get("max_yields") or 30_000_000, parent_seed=sched.get("parent_seed", 2 + si), keep_dir=is_crash)
        if is_crash:
            try:
                merge(stats["faults"], run["faults"])
                stats["steps"] += 1
                sched_keys.append(digest([run["sim"].events, sched["crash"]]))
                if "crash" in run:
                    nontrivial = True
                    atol_saved2 = Settings.get_atol()
                    try:
                        if cfg.get("parent_atol"):
                            Settings.set_atol(cfg["parent_atol"])
                        oracles.check_after_crash(cfg, ref, run, si, viol, stats, dict(sig_base, levels=oracles.level_signature(cfg)))
                    finally:
                        Settings.set_atol(atol_saved2)
                    log.append(["crash", si, run["crash"].split("(")[0], digest(sorted(os.listdir(run["out_dir"])))])
                elif not run["ok"] and "task_fault_propagated" in run:
                    stats["probes"]["task_failure_propagated"] = stats["probes"].get("task_failure_propagated", 0) + 1
                elif not run["ok"] and "abort" in run:
                    stats["probes"]["schedule_stopped_at_the_yield_cap_undecided"] = stats["probes"].get("schedule_stopped_at_the_yield_cap_undecided", 0) + 1
                elif not run["ok"]:
                    viol.append({"oracle": "H0_parallel_run_fails", "what": f"run under simulated schedule {si} failed: {run.get('exception') or run.get('abort')}", "detail": {"schedule": si}, "signature": dict(sig_base, oracle="H0_parallel_run_fails")})
                else:
                    stats["probes"]["crash_point_beyond_last_write"] = stats["probes"].get("crash_point_beyond_last_write", 0) + 1
            finally:
                shutil.rmtree(run["out_dir"], ignore_errors=True)
            continue
        ys = [t.get("yields", 0) for t in sched.get("threads", [])]
        if ys:
            est = {"yields": max(ys), "sites": sorted(run["sim"].site_counts)}
        stats["steps"] += 1
        merge(stats["faults"], run["faults"])
        merge(stats["probes"], run["probes"])
        clk = run["clock"]
        stats["sim_time"] += clk.elapsed
        if clk.jumps_fwd:
            stats["faults"]["clock_jump_fwd"] = stats["faults"].get("clock_jump_fwd", 0) + clk.jumps_fwd
        if clk.jumps_back:
            stats["faults"]["clock_jump_back"] = stats["faults"].get("clock_jump_back", 0) + clk.jumps_back
        if clk.back_inside_timed:
            stats["probes"]["backwards_clock_inside_timed_section"] = stats["probes"].get("backwards_clock_inside_timed_section", 0) + clk.back_inside_timed
        sim = run["sim"]
        stats.setdefault("sets", {}).setdefault("switch_sites", set()).update(sim.switch_sites)
        stats["sets"].setdefault("conflicting_attribute_write_sites", set()).update(sim.shared_write_sites)
        key = digest(sim.events + [[t["call"], t.get("first"), t.get("switches")] for t in sched.get("threads", [])])
        sched_keys.append(key)
        if sum(run["faults"].values()):
            nontrivial = True
        sig = dict(sig_base, levels=oracles.level_signature(cfg))
        if not run["ok"] and "task_fault_propagated" in run:
            stats["probes"]["task_failure_propagated"] = stats["probes"].get("task_failure_propagated", 0) + 1
            log.append(["task_fault", si])
            continue
        if not run["ok"]:
            if "abort" in run:
                # the absolute cap on yield points is a safety stop; it is a progress violation only when measured against
                # this run's own work: an earlier, completed schedule with the same pre-emption granularity that needed
                # less than a twentieth of the cap.  Otherwise the configuration is simply heavy and the schedule is skipped.
                done = yields_done.get(sched.get("line_set", "none"))
                if done is not None and sim.total_yields > 20 * max(done, 1):
                    viol.append({"oracle": "I3_progress", "what": f"{run['abort']}; a completed schedule of the same run with the same pre-emption granularity needed {done}", "detail": {"schedule": si},
                                 "signature": dict(sig, oracle="I3_progress")})
                else:
                    stats["probes"]["schedule_stopped_at_the_yield_cap_undecided"] = stats["probes"].get("schedule_stopped_at_the_yield_cap_undecided", 0) + 1
                    log.append(["capped", si])
            else:
                viol.append({"oracle": "H0_parallel_run_fails", "what": f"run under simulated schedule {si} failed while the serial run succeeded: {run['exception']}",
                             "detail": {"schedule": si, "trace": run.get("trace")}, "signature": dict(sig, oracle="H0_parallel_run_fails", exc=run["exception"].split(":")[0])})
            continue
        yields_done[sched.get("line_set", "none")] = max(yields_done.get(sched.get("line_set", "none"), 0), sim.total_yields)
        log.append(["sched", si, digest(run["results"]), digest(run["files"]["digest_view"]), key])
        oracles.compare_runs(cfg, ref, run, si, viol, stats, sig)
        if sim.write_sets:
            viol.append({"oracle": "I2_write_write_race", "what": f"two batches of one Parallel call wrote the same path: {sim.write_sets[0]}", "detail": sim.write_sets[0], "signature": dict(sig, oracle="I2_write_write_race")})
        stats["oracle_checks"]["I2"] = stats["oracle_checks"].get("I2", 0) + 1
        stats["oracle_checks"]["I3"] = stats["oracle_checks"].get("I3", 0) + 1
    return _finish(record, viol, log, sched_keys, stats, nontrivial, want_record)


def gen_schedule_header(rng, cfg, fault_free, est, si):
    """the part of a schedule fixed before execution: switch policy, pre-emption granularity, fault scripts."""
    if fault_free:
        # zero-fault configuration: one batch on worker 0, FIFO, no pre-emption, no pollution, monotone clock
        return {"proc": [], "threads": [], "pollution": [], "clock": [], "policy": {"kind": "none"}, "line_set": "none", "parent_seed": 2 + si, "fault_free": True}
    r = rng.random()
    if est and r < 0.3:
        policy = {"kind": "pct", "d": rng.choice([1, 2, 3]), "est_yields": est["yields"]}
    elif est and est.get("sites") and r < 0.65:
        policy = {"kind": "site", "d": rng.choice([1, 2, 3, 5]), "sites": est["sites"]}
    else:
        policy = {"kind": "bernoulli", "rate": rng.choice([1e-4, 1e-3, 1e-3, 1e-2])}
    heavy = any(c["estimator"] == "lossmin" for c in cfg["cases"])
    if rng.random() < 0.45:
        # line events only inside functions that write shared state, pre-empted there at a high rate
        policy["hot_rate"] = rng.choice([0.02, 0.1, 0.3])
        policy["quantum"] = rng.choice([0, 0, 300, 3000, 30000])  # yields the thread switched to runs before the next switch may happen
        pollution, clock = gen_fault_script(rng, False)
        hdr = {"proc": [], "threads": [], "pollution": pollution, "clock": clock, "policy": policy, "line_set": "mutators", "parent_seed": 2 + si}
        return _with_disk_faults(rng, cfg, hdr)
    line_set = rng.choice(["none", "none", "csys", "simulation", "protocol"] + ([] if heavy else ["loss_algo", "objects"]) + (["loss_algo"] if heavy and rng.random() < 0.15 else []))
    pollution, clock = gen_fault_script(rng, False)
    hdr = {"proc": [], "threads": [], "pollution": pollution, "clock": clock, "policy": policy, "line_set": line_set, "parent_seed": 2 + si}
    return _with_disk_faults(rng, cfg, hdr)


def _with_disk_faults(rng, cfg, hdr):
    if cfg.get("companion"):
        # two settings in one call: the directory-level fault oracles are written for one setting
        if rng.random() < 0.2:
            hdr["worker_cwd"] = True
        return hdr
    if rng.random() < 0.08:
        # fault kind task_exception: one task fails; the run must fail with it, never return a silently incomplete result
        hdr["task_fault"] = [[rng.choice(["_execute_estimation", "_execute_estimation", "execute_simulation_case_unit"]), rng.randint(1, 4), "raise", 0]]
    elif rng.random() < 0.08:
        hdr["enospc_at"] = "pending"  # one write fails once with "no space left on device"
    if rng.random() < 0.2:
        hdr["worker_cwd"] = True  # the pool's processes were started in another directory than the caller's current one
    cheap = not any(c["estimator"] == "lossmin" and c.get("loss") in ("se", "re") for c in cfg["cases"])
    if rng.random() < 0.12:
        hdr["crash"] = "pending"  # the write index is drawn once the reference has told how many writes a run makes
        if cheap and rng.random() < 0.4:
            hdr["stale_dir"] = True  # ... and the directory may already hold the files of an earlier, different run
    elif rng.random() < 0.12 and cheap:
        hdr["stale_dir"] = True
    return hdr


def _finish(record, viol, log, sched_keys, stats, nontrivial, want_record):
    if "sets" in stats:
        stats["sets"] = {k: sorted(v) for k, v in stats["sets"].items()}
    res = {
        "ok": not viol,
        "violations": viol[:5],
        "log_digest": digest(log),
        "sched_digest": digest(sched_keys) if sched_keys else digest(log),
        "nontrivial": bool(nontrivial),
        "stats": stats,
        "seed": record.get("seed"),
    }
    if viol or want_record:
        res["record"] = record
    return res


def generate_record(seed, tier, opts):
    rng = rng_for(seed, "poolsim-config")
    if opts.get("directed"):
        from poolsim import directed

        cfg = directed.config(opts["directed"], rng, tier, seed)
    elif rng.random() < 0.2 and not opts.get("flow_only"):
        cfg = workload.gen_single_config(rng, tier, opts)
    else:
        cfg = workload.gen_config(rng, tier, opts)
    return {"engine": "poolsim", "seed": seed, "tier": tier, "opts": {k: v for k, v in opts.items() if k != "want_record"}, "config": cfg, "schedules": []}


def run_seed(seed, tier, opts):
    record = generate_record(seed, tier, opts)
    cfg = record["config"]
    if cfg.get("entry") == "single":
        from poolsim import single

        return single.run_seed(record, seed, tier, opts)
    fault_free = bool(opts.get("fault_free"))
    n_sched = 1 if fault_free else (opts.get("schedules") or (3 if tier == "quick" else 5))
    return run_record(record, want_record=bool(opts.get("want_record")), gen={"seed": seed, "tier": tier, "fault_free": fault_free, "n": n_sched})
