"""poolsim, second entry point: execute_simulation (single setting).  There is no worker pool inside this
entry point, so the simulated part is the random-state seam and the history around the call: the same call
is made twice in differently polluted worlds and must agree; repetitions must be independent draws;
re-estimation from the stored empirical distributions must reproduce the stored estimates."""
import copy
import random as pyrandom

import numpy as np

from simcore.util import digest, rng_for

from poolsim import oracles, workload
from poolsim.simpool import EntryPollution, ProcGlobals

from quara.objects.qoperation_typical import generate_qoperation
from quara.simulation import standard_qtomography_simulation as qsim
from quara.simulation.standard_qtomography_simulation import StandardQTomographySimulationSetting


def _build(cfg):
    ts = workload.build_test_setting(cfg)
    gs = ts.to_generation_settings()
    method = cfg["noise"][0]
    qgen = np.random.Generator(np.random.MT19937(cfg["seed_qoperation"]))

    def gen(setting, ns):
        if method == "none":
            return generate_qoperation(ns.qoperation_base[0], ns.qoperation_base[1], ts.c_sys)
        if method == "lindbladian":
            out = setting.generate(qgen)
            return out[0] if isinstance(out, tuple) else out
        return setting.generate()

    true_object = gen(gs.true_setting, ts.true_object)
    testers = [gen(s, ns) for s, ns in zip(gs.tester_settings, ts.tester_objects)]
    sim_setting = ts.to_simulation_setting(true_object, testers, 0)
    return ts, sim_setting


def _call(cfg, world):
    """one execute_simulation call in a freshly built world.  world = {"np_seed", "pollution": [...]}"""
    saved = ProcGlobals.capture()
    ProcGlobals(np_seed=world["np_seed"], py_seed=world["np_seed"] + 1).install()
    try:
        ts, sim_setting = _build(cfg)
        for kind, arg in world.get("pollution_before_ctor", []):
            _pollute(kind, arg)
        qt = qsim.generate_qtomography(sim_setting, para=cfg["cases"][0]["para"], init_with_seed=cfg.get("init_with_seed", True))
        for kind, arg in world.get("pollution_after_ctor", []):
            _pollute(kind, arg)
        sk = cfg.get("seed_kind", "int_default")
        if sk == "int_default":
            arg = None
        elif sk == "int_arg":
            arg = cfg["seed_data"] + 1
        elif sk == "generator":
            arg = np.random.Generator(np.random.MT19937(cfg["seed_data"]))
        else:  # none_global: seed_data None, the global stream, right after np.random.seed
            sim_setting.seed_data = None
            np.random.seed(cfg["seed_data"] % (2 ** 32))
            arg = None
        targets = {"_generate_empi_dists_and_calc_estimate": qsim._generate_empi_dists_and_calc_estimate.__code__, "_execute_estimation": qsim._execute_estimation.__code__}
        with EntryPollution(world.get("pollution_inside", []) if sk != "none_global" else [], targets, world.setdefault("_fired", {})):
            res = qsim.execute_simulation(qt, sim_setting, seed_or_generator=arg, is_computation_time_required=cfg.get("is_computation_time_required", True))
        res.result_index = {"test_setting_index": 0, "sample_index": 0, "case_index": 0}
        return {"ok": True, "raw": res, "result": workload.extract_result(res), "ts": ts, "np_after": digest(list(np.random.get_state()[1][:8]))}
    except Exception as e:
        import traceback

        return {"ok": False, "exception": f"{type(e).__name__}: {str(e)[:300]}", "trace": traceback.format_exc()[-1500:]}
    finally:
        saved.install()


def _pollute(kind, arg):
    if kind == "draws":
        np.random.random(arg)
    elif kind == "reseed":
        np.random.seed(arg)
    elif kind == "py_reseed":
        pyrandom.seed(arg)


def gen_world(rng, fault_free):
    w = {"np_seed": rng.randrange(2 ** 32), "pollution_before_ctor": [], "pollution_after_ctor": [], "pollution_inside": []}
    if not fault_free and rng.random() < 0.7:
        # between repetitions (entry of the k-th repetition / k-th estimation) another user of the global random state acts
        for _ in range(rng.randint(1, 3)):
            kind = rng.choice(["draws", "draws", "reseed", "py_reseed"])
            w["pollution_inside"].append([rng.choice(["_generate_empi_dists_and_calc_estimate", "_execute_estimation"]), rng.randint(1, 4), kind, rng.choice([1, 3, 100]) if kind == "draws" else rng.randrange(5)])
    if not fault_free:
        for key in ("pollution_before_ctor", "pollution_after_ctor"):
            for _ in range(rng.randint(0, 2)):
                kind = rng.choice(["draws", "reseed", "py_reseed"])
                w[key].append([kind, rng.choice([1, 3, 100]) if kind == "draws" else rng.randrange(5)])
    return w


def run_seed(record, seed, tier, opts):
    rng = rng_for(seed, "poolsim-single")
    fault_free = bool(opts.get("fault_free"))
    record["schedules"] = [gen_world(rng, True)] + [gen_world(rng, fault_free) for _ in range(1 if fault_free else 2)]
    return run_record(record, bool(opts.get("want_record")))


def run_record(record, want_record=True):
    cfg = record["config"]
    stats = {"faults": {}, "probes": {}, "oracle_checks": {}, "steps": 0, "sim_time": 0.0}
    oc = stats["oracle_checks"]
    viol, log, keys = [], [], []
    sig = {"engine": "poolsim", "entry": "single", "seed_kind": cfg.get("seed_kind")}
    worlds = record["schedules"]
    none_global = cfg.get("seed_kind") == "none_global"
    ref = _call(cfg, worlds[0])
    stats["steps"] += 1
    nontrivial = False
    if not ref["ok"]:
        viol.append({"oracle": "H0_serial_run_fails", "what": f"execute_simulation failed: {ref['exception']}", "detail": {"trace": ref.get("trace")},
                     "signature": dict(sig, oracle="H0_serial_run_fails", exc=ref["exception"].split(":")[0], unknown=cfg["unknown"][0])})
    else:
        log.append(["ref", digest(ref["result"])])
        # repetitions independent (H5), re-estimation (H6), verdict n/a (no check_result for this entry point)
        run = {"results": [ref["result"]], "raw_results": [ref["raw"]], "test_setting": ref["ts"]}
        oracles.check_run_internal(cfg, run, viol, stats, sig, which="execute_simulation")
        for w in worlds[1:]:
            if viol:
                break
            other = _call(cfg, w)
            stats["steps"] += 1
            fired = len(w.get("pollution_before_ctor", [])) + len(w.get("pollution_after_ctor", [])) + sum((w.get("_fired") or {}).get("pollution_inside_run", 0) for _ in [0])
            if (w.get("_fired") or {}).get("pollution_inside_run"):
                stats["faults"]["pollution_inside_run"] = stats["faults"].get("pollution_inside_run", 0) + w["_fired"]["pollution_inside_run"]
            w.pop("_fired", None)
            if fired:
                stats["faults"]["global_rng_pollution"] = stats["faults"].get("global_rng_pollution", 0) + fired
                nontrivial = True
            keys.append(digest([w.get("pollution_before_ctor"), w.get("pollution_after_ctor"), w.get("pollution_inside")]))
            if not other["ok"]:
                viol.append({"oracle": "H0_parallel_run_fails", "what": f"execute_simulation failed when repeated in another world: {other['exception']}", "detail": {}, "signature": dict(sig, oracle="H0_parallel_run_fails")})
                break
            log.append(["again", digest(other["result"])])
            for k in ("H1", "H2", "H3"):
                oc[k] = oc.get(k, 0) + 1
            d = oracles.first_diff(ref["result"], other["result"], "result")
            if d:
                orc = oracles._oracle_for_path(d[0])
                viol.append({"oracle": orc, "what": f"repeating execute_simulation (seed kind {cfg.get('seed_kind')}) in a differently polluted world changed {d[0]} ({d[1]}, max abs diff {d[2]})",
                             "detail": {"field": d[0], "world": w}, "signature": dict(sig, oracle=orc)})
    res = {
        "ok": not viol, "violations": viol[:5], "log_digest": digest(log), "sched_digest": digest([cfg.get("seed_kind"), keys]), "nontrivial": nontrivial,
        "stats": stats, "seed": record.get("seed"),
    }
    if viol or want_record:
        res["record"] = record
    return res
