"""Static pre-pass over the quara sources under test: which functions write shared state?

A data race needs a write to state that another thread can see.  Line-granularity pre-emption everywhere makes the
schedule space hopelessly large, so line events are switched on only inside *mutator functions*: functions (other than
__init__) that assign to, augment or delete an attribute or item of `self`, `cls`, or of a name that is not local to the
function (a module global, an imported module or object), or that rebind a declared global.  The analysis is purely
syntactic and runs on $VERIF_REPO, so functions a change under test turns into mutators are picked up."""
import ast
import os


class _Finder(ast.NodeVisitor):
    def __init__(self):
        self.stack = []
        self.out = set()

    def visit_ClassDef(self, node):
        self.stack.append(node.name)
        self.generic_visit(node)
        self.stack.pop()

    def _func(self, node):
        qual = ".".join(self.stack + [node.name])
        if node.name != "__init__" and self._is_mutator(node):
            self.out.add(qual)
        self.stack.append(node.name)
        self.stack.append("<locals>")
        self.generic_visit(node)
        self.stack.pop()
        self.stack.pop()

    visit_FunctionDef = _func
    visit_AsyncFunctionDef = _func

    @staticmethod
    def _is_mutator(fn):
        local = {a.arg for a in fn.args.args + fn.args.kwonlyargs + fn.args.posonlyargs}
        if fn.args.vararg:
            local.add(fn.args.vararg.arg)
        if fn.args.kwarg:
            local.add(fn.args.kwarg.arg)
        local -= {"self", "cls"}
        declared_global = set()
        body_nodes = []
        for child in ast.iter_child_nodes(fn):
            body_nodes.append(child)
        # names bound inside the function (not descending into nested functions / classes)
        def walk(n):
            for c in ast.iter_child_nodes(n):
                if isinstance(c, (ast.FunctionDef, ast.AsyncFunctionDef, ast.ClassDef, ast.Lambda)):
                    continue
                yield c
                yield from walk(c)

        nodes = list(walk(fn))
        for n in nodes:
            if isinstance(n, ast.Global):
                declared_global.update(n.names)
            if isinstance(n, ast.Name) and isinstance(n.ctx, ast.Store):
                local.add(n.id)
        local -= declared_global

        def base_name(t):
            while isinstance(t, (ast.Attribute, ast.Subscript)):
                t = t.value
            return t.id if isinstance(t, ast.Name) else None

        for n in nodes:
            targets = []
            if isinstance(n, ast.Assign):
                targets = n.targets
            elif isinstance(n, (ast.AugAssign, ast.AnnAssign)):
                targets = [n.target]
            elif isinstance(n, ast.Delete):
                targets = n.targets
            for t in targets:
                for sub in ([t] if not isinstance(t, (ast.Tuple, ast.List)) else t.elts):
                    if isinstance(sub, ast.Name) and sub.id in declared_global:
                        return True
                    if isinstance(sub, (ast.Attribute, ast.Subscript)):
                        b = base_name(sub)
                        if b is not None and (b in ("self", "cls") or b not in local):
                            return True
        return False


def mutator_functions(quara_dir):
    """{basename of file: set of qualified function names} for every .py file under quara_dir."""
    out = {}
    for root, _, files in os.walk(quara_dir):
        for fn in files:
            if not fn.endswith(".py"):
                continue
            path = os.path.join(root, fn)
            try:
                tree = ast.parse(open(path, encoding="utf-8").read())
            except (SyntaxError, UnicodeDecodeError):
                continue
            f = _Finder()
            f.visit(tree)
            if f.out:
                out.setdefault(fn, set()).update(f.out)
    return out
