"""poolsim workload: configuration (JSON) -> quara simulation inputs, and result extraction.

Everything here builds FRESH quara objects from a literal configuration, so that the serial
reference and every simulated schedule start from independent, identical inputs."""
import numpy as np

from quara.loss_function.standard_qtomography_based_weighted_probability_based_squared_error import (
    StandardQTomographyBasedWeightedProbabilityBasedSquaredError,
    StandardQTomographyBasedWeightedProbabilityBasedSquaredErrorOption,
)
from quara.loss_function.standard_qtomography_based_weighted_relative_entropy import (
    StandardQTomographyBasedWeightedRelativeEntropy,
    StandardQTomographyBasedWeightedRelativeEntropyOption,
)
from quara.loss_function.weighted_probability_based_squared_error import (
    WeightedProbabilityBasedSquaredError,
    WeightedProbabilityBasedSquaredErrorOption,
)
from quara.loss_function.weighted_relative_entropy import WeightedRelativeEntropy, WeightedRelativeEntropyOption
from quara.minimization_algorithm.projected_gradient_descent_backtracking import (
    ProjectedGradientDescentBacktracking,
    ProjectedGradientDescentBacktrackingOption,
)
from quara.objects.composite_system_typical import generate_composite_system
from quara.protocol.qtomography.standard.linear_estimator import LinearEstimator
from quara.protocol.qtomography.standard.loss_minimization_estimator import LossMinimizationEstimator
from quara.protocol.qtomography.standard.projected_linear_estimator import ProjectedLinearEstimator
from quara.simulation.standard_qtomography_simulation import (
    EstimatorTestSetting,
    NoiseSetting,
    StandardQTomographySimulationSetting,
)

STATE_TESTERS = ["x0", "y0", "z0", "z1"]
POVM_TESTERS = ["x", "y", "z"]
UNKNOWNS = {
    "state": ["z0", "z1", "x0", "y0", "a"],
    "povm": ["x", "y", "z"],
    "gate": ["identity", "x90", "hadamard", "z90", "y90", "phase"],
    "mprocess": ["x-type1", "z-type1", "y-type1", "z-type2"],
}


def testers_for(unknown_type):
    if unknown_type == "state":
        return [("povm", n) for n in POVM_TESTERS]
    if unknown_type == "povm":
        return [("state", n) for n in STATE_TESTERS]
    return [("state", n) for n in STATE_TESTERS] + [("povm", n) for n in POVM_TESTERS]


def gen_config(rng, tier, opts):
    """draws one configuration (swarm).  Everything JSON-literal."""
    thorough = tier == "thorough"
    types = ["state", "state", "povm", "gate"] + (["mprocess"] if thorough or rng.random() < 0.15 else [])
    ut = rng.choice(types)
    name = rng.choice(UNKNOWNS[ut])
    noise = rng.choice(["none", "depolarized", "depolarized", "lindbladian", "lindbladian"])
    if noise == "depolarized":
        # rate in [0,1] for the unknown; testers stay informative (rate 1 would make tomography impossible)
        para = {"error_rate": rng.choice([0.0, 1.0, 0.5, round(rng.random(), 3), 10 ** rng.uniform(-4, -1)])}
        para_t = {"error_rate": rng.choice([0.0, 0.5, round(0.9 * rng.random(), 3), 10 ** rng.uniform(-4, -1)])}
    elif noise == "lindbladian":
        para = {"lindbladian_base": "identity", "strength_h_part": 10 ** rng.uniform(-4, 0), "strength_k_part": 10 ** rng.uniform(-4, 0)}
        para_t = {"lindbladian_base": "identity", "strength_h_part": 10 ** rng.uniform(-4, -0.5), "strength_k_part": 10 ** rng.uniform(-4, -0.5)}
    else:
        para, para_t = {}, {}
    heavy = ut in ("gate", "mprocess")
    n_cases = rng.randint(1, 3 if heavy else 4)
    cases = []
    for _ in range(n_cases):
        kind = rng.choice(["linear", "plinear", "lossmin", "lossmin"] if not heavy else ["linear", "plinear", "plinear", "lossmin"])
        c = {"estimator": kind, "para": rng.random() < 0.6, "eps_proj_physical": rng.choice([1e-13, 1e-9, 1e-5, 1e-3, 1e-2])}
        if kind == "plinear":
            c["mode_proj_order"] = rng.choice(["eq_ineq", "ineq_eq"])
        if kind == "lossmin":
            c["loss"] = rng.choice(["fast_se", "fast_se", "fast_re", "fast_re", "se", "re"] if ut == "state" else ["fast_se", "fast_re"])
            if c["loss"] in ("fast_se", "se"):
                c["mode_weight"] = rng.choice(["identity", "identity", "inverse_sample_covariance", "inverse_unbiased_covariance"]) if ut in ("state",) else "identity"
            else:
                c["mode_weight"] = "identity"
            c["algo"] = {
                "on_algo_eq_constraint": rng.random() < 0.8,
                "on_algo_ineq_constraint": rng.random() < 0.8,
                "mode_stopping": rng.choice(["single_difference_loss", "sum_absolute_difference_loss", "sum_absolute_difference_variable", "sum_absolute_difference_projected_gradient"]),
                "num_history": rng.choice([1, 1, 2]),
                "eps": rng.choice([1e-6, 1e-8, 1e-9]),
                "mode_proj_order": rng.choice(["eq_ineq", "ineq_eq"]),
                "max_iteration": rng.choice([5, 20, 20, 60]) if c["loss"] in ("se", "re") or heavy else rng.choice([20, 60, 200]),
            }
        cases.append(c)
    if rng.random() < 0.06 and not heavy:
        # many cheap cases: two-digit case indices (file names case_10_..., ordering, index bookkeeping)
        cases = []
        for _ in range(rng.randint(11, 13)):
            kind = rng.choice(["linear", "plinear"])
            c = {"estimator": kind, "para": rng.random() < 0.6, "eps_proj_physical": rng.choice([1e-9, 1e-5, 1e-3])}
            if kind == "plinear":
                c["mode_proj_order"] = rng.choice(["eq_ineq", "ineq_eq"])
            cases.append(c)
    sizes = [10, 30, 100, 300, 1000, 3000, 10000]
    nd = sorted(rng.sample(sizes, rng.randint(1, 3)))
    pm = {}
    for key in ("per_sample_unit", "per_data_generation", "per_estimator_unit", "per_estimator_execution"):
        if rng.random() < 0.55:
            pm[key] = rng.choice([1, 2, 2, 3, 4])
    if not any(v > 1 for v in pm.values()):
        pm[rng.choice(["per_sample_unit", "per_data_generation", "per_estimator_unit", "per_estimator_execution"])] = rng.choice([2, 3, 4])
    cfg = {
        "entry": "flow",
        "unknown": [ut, name],
        "noise": [noise, para, para_t],
        "n_sample": rng.randint(1, 3),
        "n_rep": rng.choice([1, 2, 2, 3, 4] if heavy else [1, 2, 2, 3, 4, 5, 6]),
        "num_data": nd,
        "cases": cases,
        "seed_data": rng.choice([0, 0, 1, 7, 777, rng.randrange(1 << 31)]),
        "seed_qoperation": rng.choice([0, 1, 8, 888, rng.randrange(1 << 31)]),
        "parallel_mode": pm,
        "exec_sim_check": rng.choice([None, {"consistency": False, "mse_of_estimators": False, "mse_of_empi_dists": False, "physicality_violation": True},
                                      {"consistency": True, "mse_of_estimators": False, "mse_of_empi_dists": True, "physicality_violation": True}]),
        "is_computation_time_required": rng.random() < 0.7,
    }
    if rng.random() < 0.2:
        cfg["duplicate_case_names"] = True
    if sum(1 for c in cases if c["estimator"] == "lossmin") >= 2 and rng.random() < 0.5:
        cfg["share_options"] = True
    if rng.random() < 0.12:
        cfg["parent_atol"] = rng.choice([1e-6, 1e-6, 1e-9, 1e-4])  # the caller changed quara's global tolerance before the run
    normalise_shared_options(cfg)
    if not cfg["is_computation_time_required"]:
        # the MSE-of-estimators check reads computation times; without them only the other checks are requested
        cfg["exec_sim_check"] = {"consistency": rng.random() < 0.5, "mse_of_estimators": False, "mse_of_empi_dists": rng.random() < 0.5, "physicality_violation": True}
    # drawn from a stream of its own, so that the other choices of a seed stay what they were
    import random as _random

    rng2 = _random.Random(f"companion|{cfg['seed_data']}|{cfg['seed_qoperation']}|{cfg['n_rep']}|{len(cases)}|{nd}")
    if rng2.random() < 0.1 and not heavy and len(cases) <= 4:
        cfg["companion"] = gen_companion(rng2, cfg)
    return cfg


def normalise_shared_options(cfg):
    """with share_options every loss-minimisation case is handed the first one's option object: the configuration says so
    explicitly (the oracles read the configuration, not the objects)."""
    if cfg.get("share_options"):
        first = next((c for c in cfg["cases"] if c["estimator"] == "lossmin"), None)
        # cost control: the shared option object also serves the cases with the slow (pure Python) losses, whose iteration
        # budget is small when they have options of their own
        slow = [c["algo"]["max_iteration"] for c in cfg["cases"] if c["estimator"] == "lossmin" and c.get("loss") in ("se", "re")]
        if first is not None and slow:
            first["algo"]["max_iteration"] = min([first["algo"]["max_iteration"]] + slow)
        for c in cfg["cases"]:
            if c["estimator"] == "lossmin" and c is not first:
                c["algo"] = dict(first["algo"])
    return cfg


def gen_single_config(rng, tier, opts):
    """configuration for the single-setting entry point execute_simulation."""
    cfg = gen_config(rng, tier, opts)
    cfg["entry"] = "single"
    cfg.pop("companion", None)
    cfg["cases"] = cfg["cases"][:1]
    cfg["n_sample"] = 1
    cfg["parallel_mode"] = {}
    cfg["seed_kind"] = rng.choice(["int_default", "int_default", "int_arg", "generator", "none_global"])
    cfg["init_with_seed"] = rng.random() < 0.5
    return cfg


def _noise_setting(base, noise, tester=False):
    method = noise[0]
    para = noise[2] if tester and len(noise) > 2 else noise[1]
    if method == "none":
        return NoiseSetting(qoperation_base=tuple(base), method=None, para={})
    if method == "depolarized":
        return NoiseSetting(qoperation_base=tuple(base), method="depolarized", para=dict(para))
    return NoiseSetting(qoperation_base=tuple(base), method="random_effective_lindbladian", para=dict(para))


def build_case(c):
    kind = c["estimator"]
    if kind == "linear":
        return LinearEstimator(), (None, None), (None, None)
    if kind == "plinear":
        return ProjectedLinearEstimator(mode_proj_order=c.get("mode_proj_order", "eq_ineq")), (None, None), (None, None)
    loss_kind = c["loss"]
    mw = c.get("mode_weight", "identity")
    if loss_kind == "fast_se":
        loss = (StandardQTomographyBasedWeightedProbabilityBasedSquaredError(), StandardQTomographyBasedWeightedProbabilityBasedSquaredErrorOption(mw))
    elif loss_kind == "fast_re":
        loss = (StandardQTomographyBasedWeightedRelativeEntropy(), StandardQTomographyBasedWeightedRelativeEntropyOption("identity"))
    elif loss_kind == "se":
        loss = (WeightedProbabilityBasedSquaredError(), WeightedProbabilityBasedSquaredErrorOption(mw))
    else:
        loss = (WeightedRelativeEntropy(), WeightedRelativeEntropyOption("identity"))
    a = c["algo"]
    algo = (
        ProjectedGradientDescentBacktracking(),
        ProjectedGradientDescentBacktrackingOption(
            on_algo_eq_constraint=a["on_algo_eq_constraint"],
            on_algo_ineq_constraint=a["on_algo_ineq_constraint"],
            mode_stopping_criterion_gradient_descent=a["mode_stopping"],
            num_history_stopping_criterion_gradient_descent=a["num_history"],
            mode_proj_order=a["mode_proj_order"],
            eps=a["eps"],
            max_iteration_optimization=a.get("max_iteration", 100),
            # cost cap: the default of 100000 projection sweeps per optimisation step can take minutes for gates
            max_iteration_proj_physical=a.get("max_iteration_proj", 200),
        ),
    )
    return LossMinimizationEstimator(), loss, algo


def gen_companion(rng, cfg):
    """a second test setting for the same call: same kind of unknown, its own (or the same) seeds."""
    ut = cfg["unknown"][0]
    same = rng.random() < 0.4
    return {"position": rng.choice(["before", "after"]), "unknown_name": rng.choice(UNKNOWNS[ut]), "n_rep": rng.choice([1, 2]),
            "seed_data": cfg["seed_data"] if same else rng.choice([0, 5, cfg["seed_data"] + 1]), "seed_qoperation": cfg["seed_qoperation"] if same else rng.choice([1, cfg["seed_qoperation"] + 1]),
            "n_cases": rng.randint(1, len(cfg["cases"]))}


def companion_config(cfg):
    c = cfg["companion"]
    out = {k: v for k, v in cfg.items() if k != "companion"}
    out.update(unknown=[cfg["unknown"][0], c["unknown_name"]], n_rep=c["n_rep"], n_sample=1, seed_data=c["seed_data"], seed_qoperation=c["seed_qoperation"],
               num_data=list(cfg["num_data"][:1]), cases=list(cfg["cases"][:c["n_cases"]]))
    return out


def build_test_setting(cfg):
    c_sys = generate_composite_system("qubit", 1)
    ut, name = cfg["unknown"]
    true_ns = _noise_setting((ut, name), cfg["noise"])
    tester_ns = [_noise_setting(t, cfg["noise"], tester=True) for t in testers_for(ut)]
    estimators, losses, algos = [], [], []
    shared_algo_option = None
    for c in cfg["cases"]:
        e, l, a = build_case(c)
        if cfg.get("share_options") and c["estimator"] == "lossmin":
            # several cases may be given one and the same option object (a legal way to write a test setting)
            if shared_algo_option is None:
                shared_algo_option = a[1]
            a = (a[0], shared_algo_option)
        estimators.append(e)
        losses.append(l)
        algos.append(a)
    return EstimatorTestSetting(
        true_object=true_ns,
        tester_objects=tester_ns,
        seed_qoperation=cfg["seed_qoperation"],
        seed_data=cfg["seed_data"],
        n_sample=cfg["n_sample"],
        n_rep=cfg["n_rep"],
        num_data=list(cfg["num_data"]),
        schedules="all",
        # case names are free-form labels: some configurations give several cases the same one
        case_names=[(f"{c['estimator']}" if cfg.get("duplicate_case_names") else f"case{i}:{c['estimator']}") for i, c in enumerate(cfg["cases"])],
        estimators=estimators,
        eps_proj_physical_list=[c["eps_proj_physical"] for c in cfg["cases"]],
        eps_truncate_imaginary_part_list=[1e-5 for _ in cfg["cases"]],
        algo_list=algos,
        loss_list=losses,
        parametrizations=[c["para"] for c in cfg["cases"]],
        c_sys=c_sys,
    )


# ---------------------------------------------------------------------------------------------
# result extraction: only values, no addresses, no times
# ---------------------------------------------------------------------------------------------
def qobj_arrays(q):
    """raw defining arrays of a quara object, by type name."""
    t = type(q).__name__
    if t == "State":
        return {"type": t, "arrays": [np.array(q.vec)]}
    if t == "Povm":
        return {"type": t, "arrays": [np.array(v) for v in q.vecs]}
    if t == "Gate":
        return {"type": t, "arrays": [np.array(q.hs)]}
    if t == "MProcess":
        return {"type": t, "arrays": [np.array(h) for h in q.hss]}
    raise TypeError(t)


def extract_result(r):
    """SimulationResult -> plain nested structure of the fields C15 speaks about."""
    out = {
        "result_index": dict(r.result_index) if r.result_index else None,
        "name": r.simulation_setting.name if r.simulation_setting is not None else None,
        "true_object": qobj_arrays(r.simulation_setting.true_object),
        "tester_objects": [qobj_arrays(t) for t in r.simulation_setting.tester_objects],
        "empi": [[[[int(n), np.array(p)] for (n, p) in per_n] for per_n in rep] for rep in r.empi_dists_sequences],
        "estimates": [[np.array(v) for v in er.estimated_var_sequence] for er in r.estimation_results],
        "check": None,
    }
    if r.check_result is not None:
        out["check"] = {"total": bool(r.check_result["total_result"]), "items": [[c["name"], bool(c["result"])] for c in r.check_result["results"]]}
    return out
