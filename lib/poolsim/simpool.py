"""SimParallel: a model of joblib.Parallel's observable semantics under a seeded scheduler.

Nesting as joblib 1.6 does it (validated against the real thing by selftest/joblib_calibration.py):
  first level with n_jobs>1          -> process workers (arguments pickled per batch, own process globals)
  next level with n_jobs>1 inside it -> threads sharing every object (baton passing: one runs at a time)
  deeper, or n_jobs==1               -> sequential in the caller

All decisions come from a `Decider`: in "generate" mode they are drawn from the run's PRNG and recorded,
in "replay" mode they are read from the record (missing / inapplicable entries fall back to the
trivial choice, so that shrunk records stay executable)."""
import os
import pickle
import random as pyrandom
import sys
import threading

import numpy as np
import cloudpickle  # what loky uses to ship task arguments

from quara.settings import Settings
import quara.data_analysis.physicality_violation_check as pvc

MON = sys.monitoring
TOOL_ID = 4  # free tool id (0=debugger,1=coverage,2=profiler,5=optimizer are the named ones)


class SimAbort(Exception):
    """progress bound exceeded (I3) or scheduler inconsistency."""


class SimCrash(BaseException):
    """the simulated machine dies at a file write (fault kind crash_then_reestimate).  BaseException: quara's own
    `except Exception` handlers must not be able to swallow a power cut."""


class DiskSeam:
    """stands in for the builtin `open` inside the two quara simulation modules: counts writes into the output directory
    and, when scripted, kills the run at the k-th one - either before the file exists (lost write) or after a prefix of it
    reached the disk (torn write)."""

    def __init__(self, out_dir, crash_at=None, torn=None, enospc_at=None):
        import builtins

        self._open = builtins.open
        self.out_dir = str(out_dir)
        self.crash_at = crash_at
        self.torn = torn
        self.enospc_at = enospc_at  # fault kind disk_full: the k-th write fails once with OSError(ENOSPC); later writes succeed
        self.enospc_fired = False
        self.writes = 0
        self.crashed_on = None
        self.written = []  # paths (relative) this run opened for writing and was not killed on
        self.sim = None  # set by the engine: file opens / closes are scheduling points of the thread level (real I/O releases the GIL)

    def __call__(self, file, mode="r", *a, **kw):
        path = str(file)
        if not isinstance(file, int) and not os.path.isabs(path):
            path = os.path.abspath(path)  # a relative name means whatever the working directory is at this moment
        if any(c in mode for c in "wax+") and path.startswith(self.out_dir):
            self.writes += 1
            if self.enospc_at is not None and self.writes == self.enospc_at and not self.enospc_fired:
                self.enospc_fired = True
                import errno

                raise OSError(errno.ENOSPC, "No space left on device (injected)", path)
            if not (self.crash_at is not None and self.writes == self.crash_at):
                self.written.append(os.path.relpath(path, self.out_dir))
            if self.crash_at is not None and self.writes == self.crash_at:
                self.crashed_on = os.path.relpath(path, self.out_dir)
                if self.torn is None:
                    raise SimCrash(f"crash before write {self.writes} ({self.crashed_on})")
                return _TornFile(self._open(file, mode, *a, **kw), path, self.torn, self.writes)
            sim = self.sim
            if sim is not None and sim.xpol.get("io_yield") and sim.thread_phase is not None:
                f = self._open(file, mode, *a, **kw)
                sim._yield_point("disk_open", "disk:open", extra="io")
                return _YieldingFile(f, sim)
        return self._open(file, mode, *a, **kw)


class _YieldingFile:
    """a file opened for writing during a thread phase: closing it is a scheduling point too."""

    def __init__(self, f, sim):
        self._f, self._sim = f, sim

    def __getattr__(self, name):
        return getattr(self._f, name)

    def __iter__(self):
        return iter(self._f)

    def __enter__(self):
        return self

    def close(self):
        self._f.close()
        self._sim._yield_point("disk_close", "disk:close", extra="io")

    def __exit__(self, *exc):
        self.close()
        return False


class _TornFile:
    def __init__(self, f, path, frac, n):
        self._f, self._path, self._frac, self._n = f, path, frac, n

    def __getattr__(self, name):
        return getattr(self._f, name)

    def __enter__(self):
        return self

    def __exit__(self, *exc):
        self._f.close()
        size = os.path.getsize(self._path)
        with open(self._path, "r+b") as g:
            g.truncate(int(size * self._frac))
        raise SimCrash(f"crash during write {self._n} ({self._path}): {int(size * self._frac)} of {size} bytes reached the disk")


# ---------------------------------------------------------------------------------------------
# process globals
# ---------------------------------------------------------------------------------------------
def _get_ineq_eps():
    return pvc.get_ineq_const_eps()


_STATE_TYPES = (dict, list, set, int, float, str, bool, type(None))


def _module_state_slots():
    """every module-level global and class-level attribute of the loaded quara modules that holds plain data (numbers,
    strings, None, dicts, lists, sets): the state a real worker process would have a private copy of."""
    import types

    slots = []
    for name, mod in sorted(sys.modules.items()):
        if mod is None or not (name == "quara" or name.startswith("quara.")):
            continue
        for k, v in list(vars(mod).items()):
            if k.startswith("__") and k.endswith("__"):
                continue
            if isinstance(v, _STATE_TYPES) and not isinstance(v, type):
                slots.append((mod, k))
            elif isinstance(v, type) and v.__module__ == name:
                for a, val in list(vars(v).items()):
                    if a.startswith("__") and a.endswith("__"):
                        continue
                    if isinstance(val, _STATE_TYPES) and not isinstance(val, (types.FunctionType, property, staticmethod, classmethod)):
                        slots.append((v, a))
    return slots


_BASELINE = None


def module_state_baseline():
    """the module / class state as it is right after import (what a freshly spawned worker process starts with)."""
    global _BASELINE
    if _BASELINE is None:
        import copy

        slots = _module_state_slots()
        _BASELINE = (slots, copy.deepcopy([getattr(o, a) for o, a in slots]))
    return _BASELINE


class ProcGlobals:
    """the process-global state quara's behaviour can depend on (DESIGN S3, S5): numpy's and python's global random
    state, and every plain-data module global / class attribute of quara (Settings atol, the physicality-check epsilon,
    and whatever a later version of quara may add)."""

    def __init__(self, np_seed, py_seed):
        import copy

        st = np.random.RandomState(np_seed).get_state()
        self.np_state = st
        r = pyrandom.Random(py_seed)
        self.py_state = r.getstate()
        slots, values = module_state_baseline()
        self.slots = slots
        self.values = copy.deepcopy(values)  # one deepcopy: objects shared between two names stay shared
        self.environ = dict(os.environ)  # a spawned worker starts with a copy of the environment and owns it afterwards
        self.cwd = None  # None = leave the working directory alone; workers of a re-used executor may have been started elsewhere

    @staticmethod
    def capture():
        g = ProcGlobals.__new__(ProcGlobals)
        g.np_state = np.random.get_state()
        g.py_state = pyrandom.getstate()
        g.slots = module_state_baseline()[0]
        g.values = [getattr(o, a, None) for o, a in g.slots]
        g.environ = dict(os.environ)
        g.cwd = os.getcwd()
        return g

    def install(self):
        np.random.set_state(self.np_state)
        pyrandom.setstate(self.py_state)
        for (o, a), v in zip(self.slots, self.values):
            try:
                setattr(o, a, v)
            except (AttributeError, TypeError):
                pass
        if self.cwd is not None and os.path.isdir(self.cwd) and os.getcwd() != self.cwd:
            os.chdir(self.cwd)
        if dict(os.environ) != self.environ:
            for k in list(os.environ):
                if k not in self.environ:
                    del os.environ[k]
            for k, v in self.environ.items():
                if os.environ.get(k) != v:
                    os.environ[k] = v

    @property
    def atol(self):
        return Settings.get_atol()

    def digest_np(self):
        from simcore.util import digest

        s = self.np_state
        return digest([np.asarray(s[1]), int(s[2])])


class ProcWorker:
    def __init__(self, idx, np_seed, py_seed):
        self.idx = idx
        self.globals = ProcGlobals(np_seed, py_seed)
        self.batches_run = 0


# ---------------------------------------------------------------------------------------------
# decisions
# ---------------------------------------------------------------------------------------------
class Decider:
    def __init__(self, rng=None, record=None, policy=None):
        self.rng = rng
        self.replay = record is not None
        self.rec = record if record is not None else {"proc": [], "threads": [], "pollution": [], "clock": []}
        self.policy = policy or {}
        self._pi = 0
        self._ti = 0

    # ---- process level: batches, worker assignment, execution order
    def proc_call(self, call_idx, n_tasks, k, batch_size="auto"):
        if self.replay:
            d = None
            for e in self.rec["proc"]:
                if e["call"] == call_idx:
                    d = e
                    break
            if d is not None and sum(len(b) for b in d["batches"]) == n_tasks and all(0 <= w < k for w in d["workers"]) \
                    and sorted(d["order"]) == list(range(len(d["batches"]))) and len(d["workers"]) == len(d["batches"]):
                return d
            return {"call": call_idx, "batches": [list(range(n_tasks))], "workers": [0], "order": [0]}
        rng = self.rng
        # consecutive batches of random sizes (joblib's auto batching can produce any such partition)
        mode = rng.choice(["singletons", "one", "random", "random"])
        if isinstance(batch_size, int) and batch_size >= 1:
            sizes = [batch_size] * (n_tasks // batch_size) + ([n_tasks % batch_size] if n_tasks % batch_size else [])
        elif mode == "singletons":
            sizes = [1] * n_tasks
        elif mode == "one":
            sizes = [n_tasks]
        else:
            sizes = []
            left = n_tasks
            while left:
                s = rng.randint(1, left)
                sizes.append(s)
                left -= s
        batches, i = [], 0
        for s in sizes:
            batches.append(list(range(i, i + s)))
            i += s
        workers = [rng.randrange(k) for _ in batches]
        # execution order: a merge that is FIFO per worker
        queues = {}
        for b, w in enumerate(workers):
            queues.setdefault(w, []).append(b)
        order = []
        live = [w for w in sorted(queues)]
        while live:
            w = rng.choice(live)
            order.append(queues[w].pop(0))
            if not queues[w]:
                live.remove(w)
        d = {"call": call_idx, "batches": batches, "workers": workers, "order": order}
        self.rec["proc"].append(d)
        return d

    # ---- thread level
    def thread_call(self, call_idx, n_threads):
        """returns the dict that will collect / provides the switch list of this thread phase."""
        if self.replay:
            for e in self.rec["threads"]:
                if e["call"] == call_idx:
                    return {"call": call_idx, "first": e["first"] % max(1, n_threads), "switches": [list(s) for s in e["switches"]], "_pos": 0, "_replay": True}
            return {"call": call_idx, "first": 0, "switches": [], "_pos": 0, "_replay": True}
        d = {"call": call_idx, "first": self.rng.randrange(n_threads), "switches": [], "_replay": False}
        pol = dict(self.policy)
        d["_policy"] = pol
        if pol.get("kind") == "pct":
            est = max(10, int(pol.get("est_yields", 2000)))
            d["_points"] = sorted(self.rng.randrange(est) for _ in range(pol.get("d", 2)))
        if pol.get("kind") == "site":
            # pre-empt at the k-th execution (k small) of a few code locations drawn uniformly over the *locations* seen in
            # the previous schedule: a race lives at a place in the code, not at a moment in time
            sites = pol.get("sites") or []
            d["_targets"] = set()
            for _ in range(pol.get("d", 2)):
                if sites:
                    d["_targets"].add((self.rng.choice(sites), self.rng.choice([1, 1, 2, 3, 5])))
        self.rec["threads"].append(d)
        return d


# ---------------------------------------------------------------------------------------------
# the simulator
# ---------------------------------------------------------------------------------------------
class _Baton:
    __slots__ = ("sem", "ident", "done", "idx", "exc")

    def __init__(self, idx):
        self.sem = threading.Semaphore(0)
        self.ident = None
        self.done = False
        self.idx = idx
        self.exc = None


class Sim:
    """one simulated execution of the flow.  `mode`: "reference" (real sequential semantics) or "sim"."""

    def __init__(self, decider, clock, repo_quara_dir, max_yields=None, line_files=(), out_dir=None, probes=None, faults=None,
                 proc_seed=0, pollution=None, mutators=None, xpol=None):
        self.xpol = dict(xpol or {})  # extended policy: I/O scheduling points, race-directed pre-emption (see _note_write)
        self.xrng = pyrandom.Random(self.xpol.get("salt", 0))
        self.shared_write_sites = set()
        self._probed = []
        self.d = decider
        self.clock = clock
        self.level = 0
        self.call_idx = 0
        self.quara_dir = repo_quara_dir
        self.line_files = tuple(line_files)
        self.mutators = mutators  # {file basename: {qualified function names}}: line events only inside these (hot lines)
        self.worker_cwd = None
        self.max_yields = max_yields
        self.total_yields = 0
        self.out_dir = out_dir
        self.probes = probes if probes is not None else {}
        self.faults = faults if faults is not None else {}
        self.proc_pools = {}
        self.proc_seed = proc_seed
        self.pollution = pollution  # callable(sim, where) or None
        self.events = []  # schedule log (address free)
        self.write_sets = []
        self.thread_phase = None
        self.switch_sites = set()
        self.phase_yields = {}
        self.site_counts = {}

    def bump(self, table, key, n=1):
        table[key] = table.get(key, 0) + n

    # ------------------------------------------------------------------ entry: SimParallel()(tasks)
    def parallel(self, n_jobs, tasks, return_as="list", force_threads=False, batch_size="auto"):
        tasks = list(tasks)
        if n_jobs is None:
            n_jobs = 1
        if n_jobs < 0:
            n_jobs = max(1, (os.cpu_count() or 1) + 1 + n_jobs)
        if self.pollution is not None and self.level < 2:
            self.pollution(self, "before_parallel")
        completion = list(range(len(tasks)))
        if n_jobs == 1 or self.level >= 2 or len(tasks) == 0:
            out = [f(*a, **kw) for (f, a, kw) in tasks]
        elif self.level == 0 and not force_threads:
            out, completion = self._process_level(n_jobs, tasks, batch_size)
        else:
            out, completion = self._thread_level(n_jobs, tasks)
        if self.pollution is not None and self.level < 2:
            self.pollution(self, "after_parallel")
        if return_as == "generator_unordered":
            # joblib yields results as they complete: the schedule decides the order
            return iter([out[i] for i in completion])
        if return_as == "generator":
            return iter(out)
        return out

    # ------------------------------------------------------------------ processes
    def _pool(self, k):
        if k not in self.proc_pools:
            base = self.proc_seed * 1000 + k * 37
            self.proc_pools[k] = [ProcWorker(i, (base + i * 7919 + 1) % (2 ** 32), base + i * 104729 + 3) for i in range(k)]
            if self.worker_cwd:
                # fault kind worker_started_elsewhere: loky re-uses its executor, whose processes keep the working directory
                # they were started in - not necessarily the caller's current one
                for w in self.proc_pools[k]:
                    w.globals.cwd = self.worker_cwd
                self.bump(self.faults, "worker_started_elsewhere")
        return self.proc_pools[k]

    def _snapshot_dir(self):
        snap = {}
        if not self.out_dir or not os.path.isdir(self.out_dir):
            return snap
        for root, _, files in os.walk(self.out_dir):
            for fn in files:
                p = os.path.join(root, fn)
                try:
                    st = os.stat(p)
                    snap[os.path.relpath(p, self.out_dir)] = (st.st_size, st.st_mtime_ns)
                except OSError:
                    pass
        return snap

    def _process_level(self, k, tasks, batch_size="auto"):
        call = self.call_idx
        self.call_idx += 1
        dec = self.d.proc_call(call, len(tasks), k, batch_size)
        batches, workers, order = dec["batches"], dec["workers"], dec["order"]
        if len(batches) > 1:
            self.bump(self.faults, "batch_split")
        if order != sorted(order):
            self.bump(self.faults, "proc_reorder")
        pool = self._pool(k)
        self.events.append(["proc", call, len(tasks), k, [len(b) for b in batches], list(workers), list(order)])
        # one pickle payload per batch (shared objects inside a batch stay shared, batches are independent)
        payloads = [cloudpickle.dumps([tasks[i] for i in b]) for b in batches]
        results = [None] * len(tasks)
        parent = ProcGlobals.capture()
        wsets = []
        first_exc = None
        for b in order:
            w = pool[workers[b]]
            if w.batches_run > 0:
                self.bump(self.faults, "worker_reuse")
                self.bump(self.probes, "worker_reused_with_dirty_global_rng")
            before = self._snapshot_dir()
            w.globals.install()
            self.level = 1
            try:
                batch_tasks = pickle.loads(payloads[b])
                if len(batch_tasks) >= 2:
                    self.bump(self.probes, "batch_with_2plus_tasks_sharing_objects")
                outs = []
                for (f, a, kw) in batch_tasks:
                    self.clock.tick_task()
                    outs.append(f(*a, **kw))
                outs = pickle.loads(cloudpickle.dumps(outs))
                for i, o in zip(batches[b], outs):
                    results[i] = o
            except SimAbort:
                raise
            except BaseException as e:  # joblib re-raises the first task error in the parent
                if first_exc is None:
                    first_exc = e
            finally:
                self.level = 0
                w.globals = ProcGlobals.capture()
                w.batches_run += 1
                parent.install()
            after = self._snapshot_dir()
            wsets.append({p for p, v in after.items() if before.get(p) != v})
            if first_exc is not None:
                break
        completion = [i for b in order for i in batches[b]]
        for i in range(len(wsets)):
            for j in range(i + 1, len(wsets)):
                both = wsets[i] & wsets[j]
                if both:
                    self.write_sets.append({"call": call, "batches": [order[i], order[j]], "paths": sorted(both)})
        if first_exc is not None:
            raise first_exc
        return results, completion

    # ------------------------------------------------------------------ threads
    def _thread_level(self, k, tasks):
        call = self.call_idx
        self.call_idx += 1
        n = min(k, len(tasks))
        dec = self.d.thread_call(call, n)
        self.events.append(["threads", call, len(tasks), k])
        if n <= 1:
            return [f(*a, **kw) for (f, a, kw) in tasks], list(range(len(tasks)))
        queue = list(enumerate(tasks))
        results = [None] * len(tasks)
        completion = []
        batons = [_Baton(i) for i in range(n)]
        parent_sem = threading.Semaphore(0)
        phase = {"dec": dec, "batons": batons, "current": None, "yields": 0, "by_ident": {}, "parent_sem": parent_sem, "in_flight": {}, "abort": None}
        sim = self

        def body(b):
            b.ident = threading.get_ident()
            b.sem.acquire()  # wait for the baton
            try:
                while queue and phase["abort"] is None:
                    i, (f, a, kw) = queue.pop(0)
                    phase["in_flight"][b.idx] = getattr(f, "__name__", "task")
                    if len(phase["in_flight"]) >= 2:
                        sim.bump(sim.probes, "two_tasks_in_flight_in_threads")
                    sim.clock.tick_task()
                    results[i] = f(*a, **kw)
                    completion.append(i)
                    phase["in_flight"].pop(b.idx, None)
            except SimAbort as e:
                phase["abort"] = e
            except BaseException as e:
                b.exc = e
                phase["abort"] = phase["abort"] or e
            finally:
                phase["in_flight"].pop(b.idx, None)
                b.done = True
                sim._thread_finished(phase, b)

        threads = [threading.Thread(target=body, args=(b,), name=f"simthread-{call}-{b.idx}", daemon=True) for b in batons]
        for t in threads:
            t.start()
        # wait until every thread has registered its ident (they all block on their semaphore)
        import time as _t

        while any(b.ident is None for b in batons):
            _t.sleep(0)
        phase["by_ident"] = {b.ident: b for b in batons}
        level_before = self.level
        self.level = 2
        self.thread_phase = phase
        self._monitor_on()
        first = batons[dec["first"] % n]
        phase["current"] = first
        first.sem.release()
        parent_sem.acquire()  # all threads done
        self._monitor_off()
        self.thread_phase = None
        self.level = level_before
        completion = completion + [i for i in range(len(tasks)) if i not in completion]
        for t in threads:
            t.join()
        self.phase_yields[call] = phase["yields"]
        dec["yields"] = phase["yields"]
        if isinstance(phase["abort"], SimAbort):
            raise phase["abort"]
        for b in batons:
            if b.exc is not None:
                raise b.exc
        if phase["abort"] is not None:
            raise phase["abort"]
        return results, completion

    def _thread_finished(self, phase, b):
        live = [x for x in phase["batons"] if not x.done]
        if not live:
            phase["current"] = None
            phase["parent_sem"].release()
            return
        # hand over to the next live thread in index order (deterministic; no PRNG draw needed)
        nxt = min(live, key=lambda x: (x.idx - b.idx) % len(phase["batons"]))
        phase["current"] = nxt
        nxt.sem.release()

    # --- monitoring (pre-emption points) -------------------------------------------------------
    def _monitor_on(self):
        try:
            MON.use_tool_id(TOOL_ID, "poolsim")
        except ValueError:
            pass
        MON.register_callback(TOOL_ID, MON.events.PY_START, self._on_start)
        ev = MON.events.PY_START
        if self.line_files or self.mutators:
            MON.register_callback(TOOL_ID, MON.events.LINE, self._on_line)
            ev |= MON.events.LINE
        MON.set_events(TOOL_ID, ev)
        MON.restart_events()
        if self.xpol.get("race_probe"):
            self._install_write_probes()

    # --- race-directed pre-emption ---------------------------------------------------------------
    def _install_write_probes(self):
        """attribute assignments on instances of quara's classes become observable during a thread phase: the classes at
        the root of quara's hierarchies get a __setattr__ that reports (object, attribute) after the assignment."""
        import enum

        sim = self
        classes = []
        for name, mod in list(sys.modules.items()):
            if not name.startswith("quara") or mod is None:
                continue
            f = getattr(mod, "__file__", None)
            if not f or not f.startswith(self.quara_dir):
                continue
            for cls in list(vars(mod).values()):
                if isinstance(cls, type) and cls.__module__ == name and not issubclass(cls, (BaseException, enum.Enum)) and cls not in classes:
                    classes.append(cls)
        cset = set(classes)
        for cls in sorted(classes, key=lambda c: (c.__module__, c.__qualname__)):
            if any(b in cset for b in cls.__mro__[1:]) or "__setattr__" in cls.__dict__ or "__slots__" in cls.__dict__:
                continue  # inherits a probed root / has its own assignment protocol
            orig = cls.__setattr__

            def make(orig):
                def __setattr__(obj, name, value):
                    orig(obj, name, value)
                    sim._note_write(obj, name)

                return __setattr__

            try:
                cls.__setattr__ = make(orig)
            except TypeError:
                continue
            self._probed.append(cls)

    def _remove_write_probes(self):
        for cls in self._probed:
            try:
                del cls.__setattr__
            except (AttributeError, TypeError):
                pass
        self._probed = []

    def _note_write(self, obj, name):
        phase = self.thread_phase
        if phase is None:
            return
        me = phase["by_ident"].get(threading.get_ident())
        if me is None or phase["current"] is not me:
            return
        fr = sys._getframe(2)
        code = fr.f_code
        if code.co_name == "__init__" and fr.f_locals.get("self") is obj:
            return  # an object under construction is not shared yet
        key = (id(obj), name)
        w = phase.setdefault("writes", {})
        last = w.get(key)
        w[key] = me.idx
        if last is None:
            phase.setdefault("write_refs", {})[id(obj)] = obj  # kept alive for the phase: ids stay unique
            return
        if last == me.idx:
            return
        # the attribute of this very object was last assigned by another thread: a write-write conflict, and the best
        # place to take the processor away from the writer
        site_key = f"{os.path.basename(code.co_filename)}:{code.co_qualname}:{fr.f_lineno}:w"
        self.shared_write_sites.add(site_key)
        self.bump(self.probes, "attribute_assigned_by_two_threads")
        self._yield_point(code.co_name, site_key, extra="write_shared")

    def _monitor_off(self):
        self._remove_write_probes()
        MON.set_events(TOOL_ID, 0)
        MON.register_callback(TOOL_ID, MON.events.PY_START, None)
        MON.register_callback(TOOL_ID, MON.events.LINE, None)
        try:
            MON.free_tool_id(TOOL_ID)
        except ValueError:
            pass

    def _on_start(self, code, offset):
        fn = code.co_filename
        if not fn.startswith(self.quara_dir):
            return MON.DISABLE
        self._yield_point(code.co_name, f"{os.path.basename(fn)}:{code.co_qualname}")

    def _on_line(self, code, line):
        fn = code.co_filename
        if not fn.startswith(self.quara_dir):
            return MON.DISABLE
        base = os.path.basename(fn)
        if self.mutators is not None:
            if code.co_qualname not in self.mutators.get(base, ()):
                return MON.DISABLE
            self._yield_point(code.co_name, f"{base}:{code.co_qualname}:{line}", hot=True)
            return
        if not fn.endswith(self.line_files):
            return MON.DISABLE
        self._yield_point(code.co_name, f"{base}:{code.co_qualname}:{line}")

    def _yield_point(self, site, site_key=None, hot=False, extra=None):
        phase = self.thread_phase
        if phase is None:
            return
        me = phase["by_ident"].get(threading.get_ident())
        if me is None or phase["current"] is not me:
            return
        y = phase["yields"]
        phase["yields"] = y + 1
        self.total_yields += 1
        self.clock.tick_yield()
        if self.max_yields is not None and self.total_yields > self.max_yields:
            phase["abort"] = SimAbort(f"progress bound exceeded: {self.total_yields} yield points (limit {self.max_yields})")
            raise phase["abort"]
        if phase["abort"] is not None:
            return
        dec = phase["dec"]
        target = None
        if dec["_replay"]:
            pos = dec["_pos"]
            sw = dec["switches"]
            if pos < len(sw) and sw[pos][0] == y:
                dec["_pos"] = pos + 1
                target = sw[pos][2]
            elif pos < len(sw) and sw[pos][0] < y:
                dec["_pos"] = pos + 1
        else:
            pol = dec.get("_policy", {})
            do = False
            quiet = phase.get("quiet_until", 0) > y  # after a switch the thread switched to runs undisturbed for a while
            if extra is not None:
                # scheduling points of the extended policy are decided by its own stream
                xp = self.xpol
                do = self.xrng.random() < (xp.get("io_rate", 0.3) if extra == "io" else xp.get("race_rate", 0.5))
                if do and not quiet:
                    others = [b.idx for b in phase["batons"] if not b.done and b is not me]
                    if others:
                        target = self.xrng.choice(others)
                        dec["switches"].append([y, me.idx, target])
                        self.bump(self.probes, "switch_at_disk_io" if extra == "io" else "switch_after_conflicting_attribute_write")
                        if extra == "write_shared" and xp.get("race_quantum"):
                            phase["quiet_until"] = y + xp["race_quantum"]
                pol, do, hot = {}, False, False  # the regular policy is not consulted at these points
            elif site_key is not None:
                seen = phase.setdefault("site_seen", {})
                c = seen.get(site_key, 0) + 1
                seen[site_key] = c
                if c <= 5:
                    self.site_counts[site_key] = max(self.site_counts.get(site_key, 0), c)
                if pol.get("kind") == "site" and (site_key, c) in dec.get("_targets", ()):
                    do = True
            if hot and pol.get("hot_rate") and self.d.rng.random() < pol["hot_rate"]:
                do = True
                self.bump(self.probes, "switch_on_hot_line_of_mutator_function")
            if pol.get("kind") == "pct":
                pts = dec["_points"]
                while pts and pts[0] <= y:
                    pts.pop(0)
                    do = True
            elif pol.get("kind") == "bernoulli":
                do = self.d.rng.random() < pol.get("rate", 1e-3)
            if do and not quiet:
                others = [b.idx for b in phase["batons"] if not b.done and b is not me]
                if others:
                    target = self.d.rng.choice(others)
                    dec["switches"].append([y, me.idx, target])
                    if pol.get("quantum"):
                        phase["quiet_until"] = y + pol["quantum"]
        if target is None:
            return
        cand = [b for b in phase["batons"] if b.idx == target and not b.done and b is not me]
        if not cand:
            return
        nxt = cand[0]
        self.bump(self.faults, "thread_preempt")
        self.switch_sites.add(site)
        if site in ("set_from_standard_qtomography_option_data", "set_prob_dists_q", "set_func_prob_dists_from_standard_qt", "_set_weights_by_mode",
                    "set_from_option", "set_constraint_from_standard_qt_and_option", "set_from_loss", "optimize", "value", "gradient"):
            self.bump(self.probes, "switch_inside_loss_or_algo_configuration_or_optimize")
        if "basis" in site or "dict_from" in site or "_calc_" in site:
            self.bump(self.probes, "switch_inside_composite_system_table_code")
        phase["current"] = nxt
        nxt.sem.release()
        me.sem.acquire()


class SimParallelFactory:
    """drop-in for joblib.Parallel: SimParallelFactory(sim)(n_jobs=..., verbose=...)(iterable_of_delayed)."""

    def __init__(self, sim):
        self.sim = sim

    def __call__(self, n_jobs=None, backend=None, prefer=None, require=None, return_as="list", batch_size="auto", **kwargs):
        sim = self.sim
        # options that change joblib's observable behaviour are honoured; cosmetic ones (verbose, ...) are ignored
        force_threads = backend == "threading" or prefer == "threads" or require == "sharedmem"
        if backend not in (None, "loky", "threading", "multiprocessing", "sequential"):
            raise NotImplementedError(f"SimParallel: backend {backend!r} is not modelled")
        if backend == "sequential":
            n_jobs = 1

        def run(iterable):
            return sim.parallel(n_jobs, iterable, return_as=return_as, force_threads=force_threads, batch_size=batch_size)

        return run


# ---------------------------------------------------------------------------------------------
# clock seam
# ---------------------------------------------------------------------------------------------
class SimClock:
    """replacement for the `time` module inside quara modules: only time() is simulated."""

    def __init__(self, rng=None, script=None, start=1_700_000_000.0):
        import time as real

        self._real = real
        self.now = start
        self.rng = rng
        self.script = list(script or [])  # [[read_index, delta], ...] jumps applied at the n-th read
        self.reads = 0
        self.elapsed = 0.0
        self.jumps_fwd = 0
        self.jumps_back = 0
        self.back_inside_timed = 0

    def time(self):
        self.reads += 1
        while self.script and self.script[0][0] <= self.reads:
            _, delta = self.script.pop(0)
            self.now += delta
            if delta >= 0:
                self.jumps_fwd += 1
            else:
                self.jumps_back += 1
                if self.reads % 2 == 0:  # the second read of a start/stop pair
                    self.back_inside_timed += 1
        self.now += 1e-4
        self.elapsed += 1e-4
        return self.now

    def tick_task(self):
        self.now += 1e-3
        self.elapsed += 1e-3

    def tick_yield(self):
        self.now += 1e-6
        self.elapsed += 1e-6

    def __getattr__(self, name):
        return getattr(self._real, name)


class InjectedTaskFault(RuntimeError):
    """a transient failure inside one task (fault kind task_exception)."""


class EntryPollution:
    """fault kind global_rng_pollution delivered *during* a run: at the k-th entry of a named quara function (a stage boundary
    such as the start of a repetition) something else in the process - another component, a callback - draws from or
    re-seeds the process-global random states.  Implemented with sys.monitoring local events on the target functions only,
    so the rest of the run is not slowed down."""

    TOOL = 3

    def __init__(self, script, targets, stats):
        self.script = [list(x) for x in script]  # [function name, occurrence, kind, arg]
        self.targets = targets  # {name: code object}
        self.stats = stats
        self.seen = {}

    def __enter__(self):
        if not self.script:
            return self
        try:
            MON.use_tool_id(self.TOOL, "poolsim-pollution")
        except ValueError:
            pass
        MON.register_callback(self.TOOL, MON.events.PY_START, self._cb)
        for name, code in self.targets.items():
            if any(x[0] == name for x in self.script):
                MON.set_local_events(self.TOOL, code, MON.events.PY_START)
        return self

    def _cb(self, code, offset):
        name = code.co_name
        c = self.seen.get(name, 0) + 1
        self.seen[name] = c
        for x in self.script:
            if x[0] == name and x[1] == c:
                kind, arg = x[2], x[3]
                if kind == "draws":
                    np.random.random(arg)
                elif kind == "reseed":
                    np.random.seed(arg)
                elif kind == "py_reseed":
                    pyrandom.seed(arg)
                elif kind == "raise":
                    self.stats["task_exception"] = self.stats.get("task_exception", 0) + 1
                    raise InjectedTaskFault(f"injected failure at entry {c} of {name}")
                self.stats["global_rng_pollution"] = self.stats.get("global_rng_pollution", 0) + 1
                self.stats["pollution_inside_run"] = self.stats.get("pollution_inside_run", 0) + 1

    def __exit__(self, *exc):
        if not self.script:
            return False
        for name, code in self.targets.items():
            try:
                MON.set_local_events(self.TOOL, code, 0)
            except Exception:
                pass
        MON.register_callback(self.TOOL, MON.events.PY_START, None)
        try:
            MON.free_tool_id(self.TOOL)
        except ValueError:
            pass
        return False
