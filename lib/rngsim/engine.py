"""rngsim: simulated call histories over the randomness seam of quara's data generation (C14).

One run = one explicit record {"pool":..., "steps":[...]} executed against a live world, every
generation call being compared with the same call replayed in a fresh world (DESIGN.md 5)."""
import copy
import math
import random as pyrandom

import numpy as np
from scipy.stats import binom

# Seam for threads quara might start itself: concurrent.futures.ThreadPoolExecutor is replaced (before quara is imported,
# so that `from concurrent.futures import ThreadPoolExecutor` binds the stand-in too) by an executor whose tasks run one
# at a time in an order the simulator decides: submission order in the reference world, a seeded permutation in the live
# world.  quara does not use executors today; the seam costs nothing until it does.
import concurrent.futures as _cf


class _SimFuture:
    def __init__(self, pool, idx):
        self._pool, self._idx = pool, idx

    def result(self, timeout=None):
        self._pool._run_all()
        r = self._pool._results[self._idx]
        if isinstance(r, _Raised):
            raise r.exc
        return r

    def done(self):
        return self._pool._ran

    def exception(self, timeout=None):
        self._pool._run_all()
        r = self._pool._results[self._idx]
        return r.exc if isinstance(r, _Raised) else None


class _Raised:
    def __init__(self, exc):
        self.exc = exc


class SimThreadPoolExecutor:
    ORDER_RNG = None  # set by the run: None -> submission order (reference world), Random -> seeded permutation (live world)
    USED = 0

    def __init__(self, max_workers=None, *a, **kw):
        self._tasks, self._results, self._ran = [], {}, False

    def __enter__(self):
        return self

    def __exit__(self, *exc):
        self._run_all()
        return False

    def shutdown(self, wait=True, **kw):
        self._run_all()

    def submit(self, fn, *args, **kwargs):
        self._tasks.append((fn, args, kwargs))
        self._ran = False
        return _SimFuture(self, len(self._tasks) - 1)

    def map(self, fn, *iterables, timeout=None, chunksize=1):
        futs = [self.submit(fn, *args) for args in zip(*iterables)]
        self._run_all()
        return iter([f.result() for f in futs])

    def _run_all(self):
        if self._ran:
            return
        pending = [i for i in range(len(self._tasks)) if i not in self._results]
        if SimThreadPoolExecutor.ORDER_RNG is not None and len(pending) > 1:
            SimThreadPoolExecutor.ORDER_RNG.shuffle(pending)
        for i in pending:
            fn, args, kwargs = self._tasks[i]
            SimThreadPoolExecutor.USED += 1
            try:
                self._results[i] = fn(*args, **kwargs)
            except BaseException as e:
                self._results[i] = _Raised(e)
        self._ran = True


_cf.ThreadPoolExecutor = SimThreadPoolExecutor

from simcore.util import digest, from_jsonable, rng_for, to_jsonable

import quara.qcircuit.data_generator as dg
from quara.objects.composite_system_typical import generate_composite_system
from quara.objects.multinomial_distribution import MultinomialDistribution
from quara.objects.qoperation_typical import generate_qoperation
from quara.protocol.qtomography.standard.standard_povmt import StandardPovmt
from quara.protocol.qtomography.standard.standard_qmpt import StandardQmpt
from quara.protocol.qtomography.standard.standard_qpt import StandardQpt
from quara.protocol.qtomography.standard.standard_qst import StandardQst
from quara.qcircuit.experiment import Experiment

TWO53 = 1 << 53
MASK32 = 0xFFFFFFFF
STATE_NAMES = ["x0", "y0", "z0", "z1", "a", "x1", "y1"]
POVM_NAMES = ["x", "y", "z"]
GATE_NAMES = ["hadamard", "x90", "y90", "z90", "x", "identity", "phase", "piover8"]
MPROCESS_NAMES = ["x-type1", "y-type1", "z-type1", "x-type2", "z-type2"]
TRUE_NAMES = {"qst": ("state", STATE_NAMES), "povmt": ("povm", POVM_NAMES), "qpt": ("gate", GATE_NAMES), "qmpt": ("mprocess", MPROCESS_NAMES)}
PRISTINE_SEED = 987654321


# ---------------------------------------------------------------------------------------------
# crafted MT19937 states (fault injection at the stream seam)
# ---------------------------------------------------------------------------------------------
def _untemper(y: int) -> int:
    y &= MASK32
    # invert y ^= y >> 18
    y ^= y >> 18
    # invert y ^= (y << 15) & 0xefc60000
    y ^= (y << 15) & 0xEFC60000
    # invert y ^= (y << 7) & 0x9d2c5680
    x = y
    for _ in range(5):
        x = y ^ ((x << 7) & 0x9D2C5680)
    y = x & MASK32
    # invert y ^= y >> 11
    x = y
    for _ in range(3):
        x = y ^ (x >> 11)
    return x & MASK32


def craft_generator(numerators):
    """a real numpy Generator(MT19937) whose next len(numerators) doubles are k/2^53."""
    assert len(numerators) <= 312
    key = np.empty(624, dtype=np.uint32)
    filler = 0x9E3779B9
    for i in range(624):
        filler = (filler * 1664525 + 1013904223) & MASK32
        key[i] = filler
    for j, k in enumerate(numerators):
        k = int(k)
        assert 0 <= k < TWO53
        a, b = k >> 26, k & ((1 << 26) - 1)
        key[2 * j] = _untemper(a << 5)
        key[2 * j + 1] = _untemper(b << 6)
    bg = np.random.MT19937(0)
    st = bg.state
    st["state"]["key"] = key
    st["state"]["pos"] = 0
    bg.state = st
    return np.random.Generator(bg)


def partial_sums(p):
    """the floating-point partial sums exactly as a sequential accumulation produces them."""
    c = 0.0
    out = []
    for x in p:
        c += float(x)
        out.append(c)
    return out


def numerators_near(x: float):
    """numerators k such that k/2^53 is x itself (when representable) and its two neighbours in the draw grid."""
    ks = set()
    base = math.floor(x * TWO53)
    for k in (base - 1, base, base + 1):
        if 0 <= k < TWO53:
            ks.add(k)
    return sorted(ks)


# ---------------------------------------------------------------------------------------------
# world
# ---------------------------------------------------------------------------------------------
class World:
    """all quara objects of one history.  `World(pool)` twice gives two independent worlds."""

    def __init__(self, pool, with_seed_data=None):
        self.pool = pool
        self.vectors = [np.array(v, dtype=np.float64) for v in pool["vectors"]]
        c = generate_composite_system("qubit", 1)
        self.c_sys = c
        self.states = {n: generate_qoperation("state", n, c) for n in STATE_NAMES}
        self.povms = {n: generate_qoperation("povm", n, c) for n in POVM_NAMES}
        self.gates = {n: generate_qoperation("gate", n, c) for n in GATE_NAMES}
        self.mprocesses = {n: generate_qoperation("mprocess", n, c) for n in MPROCESS_NAMES}
        e = pool["experiment"]
        self.exp = Experiment(
            states=[self.states[n] for n in e["states"]],
            povms=[self.povms[n] for n in e["povms"]],
            gates=[self.gates[n] for n in e["gates"]],
            mprocesses=[self.mprocesses[n] for n in e["mprocesses"]],
            schedules=[[tuple(it) for it in s] for s in e["schedules"]],
            seed_data=e.get("seed_data"),
        )
        t = pool["tomo"]
        tst = [self.states[n] for n in t["states"]]
        tpv = [self.povms[n] for n in t["povms"]]
        para = bool(t.get("para", True))
        sd = t.get("seed_data")  # tomography objects built with a data seed re-seed the global state as a side effect
        self.tomo = {
            "qst": StandardQst(tpv, on_para_eq_constraint=para, seed_data=sd),
            "povmt": StandardPovmt(tst, num_outcomes=2, on_para_eq_constraint=para, seed_data=sd),
            "qpt": StandardQpt(tst, tpv, on_para_eq_constraint=para, seed_data=sd),
            "qmpt": StandardQmpt(tst, tpv, num_outcomes=2, on_para_eq_constraint=para, seed_data=sd),
        }

    def true_obj(self, t, name):
        kind, _ = TRUE_NAMES[t]
        return {"state": self.states, "povm": self.povms, "gate": self.gates, "mprocess": self.mprocesses}[kind][name]


def _canon(o):
    """canonical form of an entry point's output (python lists / ints / float64 arrays)."""
    if isinstance(o, tuple):
        return [_canon(x) for x in o]
    if isinstance(o, list):
        return [_canon(x) for x in o]
    if isinstance(o, np.ndarray):
        return np.array(o)
    if isinstance(o, (np.integer,)):
        return int(o)
    if isinstance(o, (np.floating,)):
        return float(o)
    return o


def call_entry(world: World, entry: str, a: dict, stream):
    """performs the generation call on `world`; `stream` is an int, a Generator, None, or a list thereof."""
    V = world.vectors
    if entry == "gen_data":
        return dg.generate_data_from_prob_dist(V[a["v"]], a["n"], stream)
    if entry == "gen_dataset":
        return dg.generate_dataset_from_prob_dists([V[i] for i in a["vs"]], list(a["ns"]), stream)
    if entry == "gen_empi_seq":
        return dg.generate_empi_dist_sequence_from_prob_dist(V[a["v"]], list(a["num_sums"]), stream)
    if entry == "gen_empi_seqs":
        return dg.generate_empi_dists_sequence_from_prob_dists([V[i] for i in a["vs"]], [list(x) for x in a["list_num_sums"]], stream)
    if entry == "mult_sampling":
        md = MultinomialDistribution(np.array(V[a["v"]]), shape=(len(V[a["v"]]),))
        return md.execute_random_sampling(a["num"], a["size"], stream)
    if entry == "exp_data":
        return world.exp.generate_data(a["sched"], a["n"], stream)
    if entry == "exp_dataset":
        return world.exp.generate_dataset(list(a["ns"]), stream)
    if entry == "exp_empi_seq":
        return world.exp.generate_empi_dist_sequence(a["sched"], list(a["num_sums"]), stream)
    if entry == "exp_empi_seqs":
        return world.exp.generate_empi_dists_sequence([list(x) for x in a["list_num_sums"]], stream)
    if entry in ("tomo_empi_dist", "tomo_empi_dists", "tomo_empi_seq"):
        t = world.tomo[a["t"]]
        obj = world.true_obj(a["t"], a["obj"])
        kw = a.get("kw", False)
        if entry == "tomo_empi_dist":
            if kw:
                return t.generate_empi_dist(a["sched"], obj, a["num_sum"], seed_or_generator=stream)
            return t.generate_empi_dist(a["sched"], obj, a["num_sum"], stream)
        if entry == "tomo_empi_dists":
            if kw:
                return t.generate_empi_dists(obj, a["num_sum"], seed_or_generator=stream)
            return t.generate_empi_dists(obj, a["num_sum"], stream)
        if kw:
            return t.generate_empi_dists_sequence(obj, list(a["num_sums"]), seed_or_generator=stream)
        return t.generate_empi_dists_sequence(obj, list(a["num_sums"]), stream)
    raise ValueError(entry)


def born_rule_check(world: World):
    """V4: for schedules made of a state, gates and a POVM the requested distribution is the Born rule
    p_x = (e_x | G_n ... G_1 | rho), computed here from the raw arrays (vec, hs, vecs) of the operations, independently of
    quara's composition code.  Returns a message for the first schedule whose calc_prob_dist disagrees, else None."""
    e = world.pool["experiment"]
    exp = world.exp
    for si, sched in enumerate(e["schedules"]):
        kinds = [it[0] for it in sched]
        if kinds[0] != "state" or kinds[-1] != "povm" or any(k != "gate" for k in kinds[1:-1]):
            continue
        v = np.array(exp.states[sched[0][1]].vec, dtype=np.complex128)
        for it in sched[1:-1]:
            v = np.array(exp.gates[it[1]].hs) @ v
        want = np.real(np.array([np.vdot(np.array(ev), v) for ev in exp.povms[sched[-1][1]].vecs]))
        got = np.array(exp.calc_prob_dist(si), dtype=np.float64)
        # MultinomialDistribution cleans entries below 1e-8 and renormalises: compare above that scale
        if got.shape != want.shape or np.max(np.abs(got - want)) > 1e-7:
            return f"schedule {si} {sched}: calc_prob_dist gives {got.tolist()}, the Born rule from the raw arrays gives {want.tolist()}"
    return None


def expected_shape(world: World, entry: str, a: dict):
    """what the output must look like: list of ("data", p, n) / ("empi", p, n) / ("counts", p, num) leaves in output order."""
    V = world.vectors
    if entry == "gen_data":
        return ("data", V[a["v"]], a["n"])
    if entry == "gen_dataset":
        return [("data", V[i], n) for i, n in zip(a["vs"], a["ns"])]
    if entry == "gen_empi_seq":
        return [("empi", V[a["v"]], n) for n in a["num_sums"]]
    if entry == "gen_empi_seqs":
        return [[("empi", V[i], n) for n in ns] for i, ns in zip(a["vs"], a["list_num_sums"])]
    if entry == "mult_sampling":
        # the distribution that is sampled is the object's own `ps`: the constructor documents that entries below eps_zero
        # (1e-8 by default) are treated as zero and the rest renormalised
        ps = np.array(MultinomialDistribution(np.array(V[a["v"]]), shape=(len(V[a["v"]]),)).ps, dtype=np.float64)
        return [("counts", ps, a["num"]) for _ in range(a["size"])]
    if entry.startswith("exp_"):
        ps = [np.array(p, dtype=np.float64) for p in world.exp.calc_prob_dists()]
        if entry == "exp_data":
            return ("data", ps[a["sched"]], a["n"])
        if entry == "exp_dataset":
            return [("data", p, n) for p, n in zip(ps, a["ns"])]
        if entry == "exp_empi_seq":
            return [("empi", ps[a["sched"]], n) for n in a["num_sums"]]
        # exp_empi_seqs: list_num_sums[k][schedule]; output [schedule][k]
        return [[("empi", p, a["list_num_sums"][k][s]) for k in range(len(a["list_num_sums"]))] for s, p in enumerate(ps)]
    t = world.tomo[a["t"]]
    obj = world.true_obj(a["t"], a["obj"])
    ps = [np.array(p, dtype=np.float64) for p in t.calc_prob_dists(obj)]
    if entry == "tomo_empi_dist":
        return ("empi", ps[a["sched"]], a["num_sum"])
    if entry == "tomo_empi_dists":
        return [("empi", p, a["num_sum"]) for p in ps]
    return [[("empi", p, n) for p in ps] for n in a["num_sums"]]


# ---------------------------------------------------------------------------------------------
# validity oracle V1 (independent of the code under test)
# ---------------------------------------------------------------------------------------------
ZERO_TOL = 1e-12  # an Experiment-level probability at or below this is a round-off zero: not judged


LOG_L = math.log(2 * 16 / 1e-15)  # Bernstein: each per-outcome bound fails on correct code with probability <= 1e-15 / 16


def _bernstein_violation(counts, p, n, where):
    """per-outcome deviation of the counts of ONE sample from n*p by more than the Bernstein bound (valid for each
    binomial marginal; decisive for tiny probabilities and huge n, where Hoeffding is blind)."""
    pn = p / p.sum()
    v = n * pn * (1 - pn)
    t = np.sqrt(2 * v * LOG_L) + 2 * LOG_L / 3 + 1e-9 * n
    dev = np.abs(counts - n * pn)
    j = int(np.argmax(dev - t))
    if dev[j] > t[j]:
        return f"{where}: outcome {j} of probability {pn[j]:.3e} was drawn {counts[j]:.0f} times in {n} draws (expected {n * pn[j]:.1f} +- {t[j]:.1f})"
    return None


def _check_leaf(leaf, out, where):
    kind, p, n = leaf
    p = np.asarray(p, dtype=np.float64)
    if kind == "data":
        if not isinstance(out, list) or len(out) != n:
            return f"{where}: expected a list of {n} outcomes, got {type(out).__name__} of length {len(out) if hasattr(out, '__len__') else '?'}"
        for j, d in enumerate(out):
            if isinstance(d, bool) or not isinstance(d, (int, np.integer)):
                return f"{where}[{j}]: outcome {d!r} is not an integer"
            if not 0 <= d < len(p):
                return f"{where}[{j}]: outcome {d} out of range 0..{len(p) - 1}"
            if p[d] == 0.0:
                return f"{where}[{j}]: outcome {d} has probability exactly 0 (p={p.tolist()})"
        if n >= 100:
            arr = np.asarray(out, dtype=int)
            msg = _bernstein_violation(np.bincount(arr, minlength=len(p)).astype(float), p, n, where)
            if msg:
                return msg + " DISTRIBUTION"
            # the draws are i.i.d.: every prefix follows the distribution too (order matters for prefix counting)
            h = n // 2
            msg = _bernstein_violation(np.bincount(arr[:h], minlength=len(p)).astype(float), p, h, where + "[:n/2]")
            if msg:
                return msg + " DISTRIBUTION"
        return None
    if kind == "empi":
        if not (isinstance(out, (list, tuple)) and len(out) == 2):
            return f"{where}: expected (n, distribution)"
        m, vec = out
        if int(m) != int(n):
            return f"{where}: reported sample size {m} != requested {n}"
        if not isinstance(vec, np.ndarray) or vec.dtype != np.float64 or vec.shape != p.shape:
            return f"{where}: distribution has dtype/shape {getattr(vec, 'dtype', None)}/{getattr(vec, 'shape', None)}, expected float64/{p.shape}"
        counts = vec * n
        r = np.rint(counts)
        if np.any(np.abs(counts - r) > 1e-6 + 1e-9 * n) or np.any(r < 0) or int(r.sum()) != int(n):
            return f"{where}: {vec.tolist()} is not counts/{n} with non-negative integer counts summing to {n}"
        if np.any(vec != r / n):
            return f"{where}: {vec.tolist()} is not exactly counts/{n}"
        bad = np.where((p == 0.0) & (r > 0))[0]
        if len(bad):
            tag = " LASTCAT" if list(bad) == [len(p) - 1] else ""
            return f"{where}: outcome {int(bad[0])} of probability exactly 0 was counted {int(r[bad[0]])} times{tag}"
        if n >= 100:
            msg = _bernstein_violation(r, p, n, where)
            if msg:
                return msg + " DISTRIBUTION"
        return None
    if kind == "counts":
        vec = np.asarray(out)
        if vec.shape != p.shape or int(vec.sum()) != int(n) or np.any(vec < 0):
            return f"{where}: counts {vec.tolist()} do not sum to {n}"
        bad = np.where((p == 0.0) & (vec > 0))[0]
        if len(bad):
            tag = " LASTCAT" if list(bad) == [len(p) - 1] else ""
            return f"{where}: outcome {int(bad[0])} of probability exactly 0 sampled{tag}"
        if n >= 100:
            msg = _bernstein_violation(vec.astype(float), p, n, where)
            if msg:
                return msg + " DISTRIBUTION"
        return None
    return f"{where}: unknown leaf kind {kind}"


def _walk(shape, out, where="out"):
    """yields (leaf, out_part, where) pairs; structure mismatch yields a (None, msg, where)."""
    if isinstance(shape, tuple):
        yield shape, out, where
        return
    if not isinstance(out, (list, tuple)) or len(out) != len(shape):
        yield None, f"{where}: expected a list of length {len(shape)}, got {type(out).__name__} of length {len(out) if hasattr(out, '__len__') else '?'}", where
        return
    for i, (s, o) in enumerate(zip(shape, out)):
        yield from _walk(s, o, f"{where}[{i}]")


def check_validity(shape, out):
    for leaf, part, where in _walk(shape, out):
        if leaf is None:
            return part
        msg = _check_leaf(leaf, part, where)
        if msg:
            return msg
    return None


def collision_bound(shape):
    """upper bound of P(two independent outputs of this call are identical)."""
    logb = 0.0
    for leaf, _, _ in _walk(shape, _dummy_like(shape)):
        kind, p, n = leaf
        p = np.asarray(p, dtype=np.float64)
        if n <= 0:
            continue
        if kind == "data":
            s2 = float(np.sum(p * p))
            if 0 < s2 < 1:
                logb += n * math.log(s2)
        else:
            i = int(np.argmin(np.abs(p - 0.5)))
            if 0.0 < p[i] < 1.0:
                if n <= 20000:
                    k = np.arange(0, n + 1)
                    m = float(np.max(binom.pmf(k, n, p[i])))
                else:
                    # the largest binomial point probability is below 1/sqrt(2 pi n p q) * (1 + 1/(12 n p q)) < 2/sqrt(2 pi n p q)
                    m = min(1.0, 2.0 / math.sqrt(2 * math.pi * n * p[i] * (1 - p[i])))
                if 0 < m < 1:
                    logb += math.log(m)
    return math.exp(max(logb, -745.0))


def _multinomial_collision_bound(p, n):
    """upper bound of P(two independent multinomial(n, p) draws coincide) <= max pmf; the pmf near the mode is evaluated
    exactly and doubled (the largest point probability is within a factor < 2 of the value at the rounded mean)."""
    from scipy.stats import multinomial as _mn

    p = np.asarray(p, dtype=float)
    sup = p > 0
    if sup.sum() <= 1:
        return 1.0
    q = p[sup] / p[sup].sum()
    x = np.floor(n * q).astype(int)
    rest = int(n - x.sum())
    order = np.argsort(-(n * q - x))
    for j in order[:rest]:
        x[j] += 1
    return float(min(1.0, 2.0 * _mn.pmf(x, n, q)))


def _dummy_like(shape):
    if isinstance(shape, tuple):
        return None
    return [_dummy_like(s) for s in shape]


def outputs_equal(a, b):
    return digest(_canon(a)) == digest(_canon(b))


# ---------------------------------------------------------------------------------------------
# record generation (everything from one PRNG)
# ---------------------------------------------------------------------------------------------
def gen_vector(rng):
    k = rng.choice([2, 2, 3, 3, 4, 4, 5, 6, 8, 11, 16])
    style = rng.choice(["dyadic", "dyadic", "decimal", "random", "random", "tiny", "offsum", "onehot"])
    if style == "onehot":
        v = [0.0] * k
        v[rng.randrange(k)] = 1.0
        return v
    nz = rng.randint(1, k)
    support = sorted(rng.sample(range(k), nz))
    v = [0.0] * k
    if style == "dyadic":
        bits = rng.choice([3, 4, 6, 10])
        total = 1 << bits
        cuts = sorted(rng.randint(0, total) for _ in range(nz - 1))
        parts = [b - a for a, b in zip([0] + cuts, cuts + [total])]
        for i, part in zip(support, parts):
            v[i] = part / total
        return v
    if style == "decimal":
        # e.g. [0.1]*10 + [0.0]: the float total is 0.9999999999999999
        unit = rng.choice([0.1, 0.05, 0.2, 0.01])
        m = int(round(1 / unit))
        cuts = sorted(rng.randint(0, m) for _ in range(nz - 1))
        parts = [b - a for a, b in zip([0] + cuts, cuts + [m])]
        for i, part in zip(support, parts):
            v[i] = sum([unit] * part) if rng.random() < 0.5 else part * unit
        if abs(sum(v) - 1.0) > 1e-15:
            v = [x / sum(v) for x in v]
        return v
    w = [rng.random() ** rng.choice([1, 3]) + 1e-3 for _ in support]
    if style == "tiny":
        w[rng.randrange(len(w))] = rng.choice([1e-15, 1e-12, 4e-9, 1e-9, 3e-8]) * sum(w)
    s = sum(w)
    for i, x in zip(support, w):
        v[i] = x / s
    if style == "offsum" and nz >= 2:
        # round-off sized only: quara accepts |sum-1| <= atol (1e-13), scipy's multinomial <= 10 eps
        delta = rng.choice([-1, 1]) * rng.choice([1.2e-16, 2.3e-16, 4.5e-16, 9e-16])
        j = max(support, key=lambda i: v[i])
        v[j] = v[j] + delta
    return v


def gen_num_sums(rng, maxn=400, maxlen=3, huge=False):
    m = rng.randint(1, maxlen)
    choices = [1, 2, 3, 5, 10, 17, 50, 100, maxn] + ([10 ** 7, 10 ** 9, 10 ** 11] if huge else [])
    vals = sorted(set(rng.choice(choices) for _ in range(m)))
    return vals


def gen_pool(rng):
    nv = rng.randint(2, 5)
    sched_opts = []
    e_states = rng.sample(STATE_NAMES, rng.randint(1, 3))
    e_povms = rng.sample(POVM_NAMES, rng.randint(1, 3))
    e_gates = rng.sample(GATE_NAMES, rng.randint(0, 3))
    e_mps = rng.sample(MPROCESS_NAMES, rng.randint(0, 1))
    ns = rng.randint(1, 4)
    for _ in range(ns):
        s = [["state", rng.randrange(len(e_states))]]
        for _ in range(rng.choice([0, 1, 2, 2, 3])):
            if e_gates and rng.random() < 0.7:
                s.append(["gate", rng.randrange(len(e_gates))])
            elif e_mps and rng.random() < 0.5:
                s.append(["mprocess", rng.randrange(len(e_mps))])
        s.append(["povm", rng.randrange(len(e_povms))])
        sched_opts.append(s)
    gens = [1000 + rng.randrange(1000) for _ in range(rng.randint(1, 3))]
    krng = pyrandom.Random(f"gen-kinds|{gens}")  # a stream of its own: the other choices of a seed stay what they were
    return {
        "vectors": [gen_vector(rng) for _ in range(nv)],
        "gens": gens,
        "gen_kinds": [krng.choice(["mt", "mt", "pcg", "pcg", "philox", "sfc"]) for _ in gens],
        "experiment": {"states": e_states, "povms": e_povms, "gates": e_gates, "mprocesses": e_mps, "schedules": sched_opts, "seed_data": rng.choice([None, None, 0, 5])},
        "tomo": {"states": rng.sample(["x0", "y0", "z0", "z1"], rng.randint(2, 4)), "povms": rng.sample(POVM_NAMES, rng.randint(1, 3)), "para": rng.random() < 0.5,
                 "seed_data": rng.choice([None, None, 0, 7, 777])},
    }


def _n_tomo_schedules(pool, t):
    ns, npv = len(pool["tomo"]["states"]), len(pool["tomo"]["povms"])
    return {"qst": npv, "povmt": ns, "qpt": ns * npv, "qmpt": ns * npv}[t]


def gen_call(rng, pool, entries=None, small=False):
    entries = entries or ENTRY_WEIGHTS
    entry = rng.choices([e for e, _ in entries], [w for _, w in entries])[0]
    nv = len(pool["vectors"])
    nsch = len(pool["experiment"]["schedules"])
    maxn = 60 if small else 400
    a = {}
    if entry == "gen_data":
        a = {"v": rng.randrange(nv), "n": rng.choice([0, 1, 2, 7, 30, maxn] + ([70000] if (not small and rng.random() < 0.1) else []))}
    elif entry == "gen_dataset":
        m = rng.randint(1, 3)
        a = {"vs": [rng.randrange(nv) for _ in range(m)], "ns": [rng.choice([1, 5, 30, 100]) for _ in range(m)]}
    elif entry == "gen_empi_seq":
        a = {"v": rng.randrange(nv), "num_sums": gen_num_sums(rng, maxn, huge=not small and rng.random() < 0.3)}
    elif entry == "gen_empi_seqs":
        m = rng.randint(1, 3)
        a = {"vs": [rng.randrange(nv) for _ in range(m)], "list_num_sums": [gen_num_sums(rng, maxn, huge=not small and rng.random() < 0.3) for _ in range(m)]}
    elif entry == "mult_sampling":
        a = {"v": rng.randrange(nv), "num": rng.choice([1, 10, 100, 1000] + ([10 ** 9, 10 ** 11] if (not small and rng.random() < 0.3) else [])), "size": rng.randint(1, 4)}
    elif entry == "exp_data":
        a = {"sched": rng.randrange(nsch), "n": rng.choice([1, 2, 7, 30, maxn])}
    elif entry == "exp_dataset":
        a = {"ns": [rng.choice([1, 5, 30, 100]) for _ in range(nsch)]}
    elif entry == "exp_empi_seq":
        a = {"sched": rng.randrange(nsch), "num_sums": gen_num_sums(rng, maxn)}
    elif entry == "exp_empi_seqs":
        a = {"list_num_sums": [[rng.choice([1, 10, 100, maxn]) for _ in range(nsch)] for _ in range(rng.randint(1, 3))]}
    else:
        t = rng.choice(["qst", "povmt", "qpt", "qmpt"])
        a = {"t": t, "obj": rng.choice(TRUE_NAMES[t][1]), "kw": rng.random() < 0.4}
        if entry == "tomo_empi_dist":
            a["sched"] = rng.randrange(_n_tomo_schedules(pool, t))
            a["num_sum"] = rng.choice([1, 10, 100, maxn])
        elif entry == "tomo_empi_dists":
            a["num_sum"] = rng.choice([1, 10, 100, maxn])
        else:
            a["num_sums"] = gen_num_sums(rng, maxn)
    return entry, a


ENTRY_WEIGHTS = [
    ("gen_data", 3), ("gen_dataset", 2), ("gen_empi_seq", 2), ("gen_empi_seqs", 2), ("mult_sampling", 1),
    ("exp_data", 2), ("exp_dataset", 1), ("exp_empi_seq", 1), ("exp_empi_seqs", 2),
    ("tomo_empi_dist", 2), ("tomo_empi_dists", 2), ("tomo_empi_seq", 4),
]
DATA_ENTRIES = ("gen_data", "gen_dataset", "exp_data", "exp_dataset")


def gen_stream(rng, pool, allow_none=True):
    r = rng.random()
    if r < 0.06:
        return {"k": "rs", "i": rng.randrange(len(pool["gens"]))}
    if r < 0.4:
        return {"k": "int", "s": rng.randrange(40)}
    if r < 0.8 or not allow_none:
        return {"k": "gen", "i": rng.randrange(len(pool["gens"]))}
    return {"k": "none"}


def gen_pollution(rng, pool):
    kind = rng.choice(["np_global_draws", "np_global_draws", "np_global_reseed", "py_random_reseed", "ctor_with_seed_data",
                       "ctor_with_seed_data", "reset_seed", "reset_seed_noarg", "foreign_draws_on_shared_generator", "foreign_draws_on_shared_generator"])
    st = {"op": "pollute", "kind": kind}
    if kind == "np_global_draws":
        st["n"] = rng.choice([1, 2, 3, 10, 624, 1000])
        st["how"] = rng.choice(["random", "randint", "normal", "multinomial"])
    elif kind in ("np_global_reseed", "py_random_reseed"):
        st["s"] = rng.randrange(6)
    elif kind == "ctor_with_seed_data":
        st["which"] = rng.choice(["experiment", "qst", "povmt", "qpt", "qmpt"])
        st["s"] = rng.randrange(6)
    elif kind == "reset_seed":
        st["t"] = rng.choice(["qst", "povmt", "qpt", "qmpt", "exp"])
        st["s"] = rng.randrange(1, 6)
    elif kind == "reset_seed_noarg":
        st["t"] = rng.choice(["qst", "povmt", "qpt", "qmpt"])
    else:
        st["i"] = rng.randrange(len(pool["gens"]))
        st["n"] = rng.choice([1, 2, 5, 100])
        st["how"] = rng.choice(["random", "integers", "normal"])
    return st


def boundary_numerators(rng, p, n, mode):
    """n numerators aimed at the boundaries of the cumulative sums of p."""
    cs = partial_sums(p)
    cands = [0, TWO53 - 1]
    for c in cs:
        if 0.0 <= c < 1.0:
            cands += numerators_near(c)
        elif c >= 1.0:
            cands += [TWO53 - 1, TWO53 - 2]
    cands = sorted(set(cands))
    if mode == "sweep":
        out = (cands * (n // max(1, len(cands)) + 1))[:n]
    else:
        out = [rng.choice(cands) if rng.random() < 0.8 else rng.randrange(TWO53) for _ in range(n)]
    return [int(k) for k in out]


def generate_record(seed, tier, opts):
    rng = rng_for(seed, "rngsim")
    pool = gen_pool(rng)
    directed = opts.get("directed")
    fault_free = bool(opts.get("fault_free"))
    steps = []
    if directed == "boundary_sweep":
        # deterministic placement of the rare draws: every vector of the pool (plus fixed classics), every data entry
        pool["vectors"] += [[0.1] * 10 + [0.0], [0.0, 0.5, 0.5], [0.5, 0.0, 0.5, 0.0], [0.25, 0.25, 0.0, 0.5, 0.0],
                            [0.5, 0.5 - 4e-16, 0.0], [0.0, 0.0, 1.0], [1.0, 0.0]]
        for v in range(len(pool["vectors"])):
            p = pool["vectors"][v]
            nums = boundary_numerators(rng, p, min(312, 3 * len(p) * 3 + 4), "sweep")
            steps.append({"op": "boundary", "entry": "gen_data", "a": {"v": v, "n": len(nums)}, "nums": nums})
            steps.append({"op": "boundary", "entry": "gen_dataset", "a": {"vs": [v], "ns": [len(nums)]}, "nums": nums})
        for s in range(len(pool["experiment"]["schedules"])):
            steps.append({"op": "boundary_exp", "entry": "exp_data", "a": {"sched": s, "n": 40}, "mode": "sweep", "salt": rng.randrange(1 << 30)})
        steps.append({"op": "boundary_exp", "entry": "exp_dataset", "a": {"ns": [20] * len(pool["experiment"]["schedules"])}, "mode": "sweep", "salt": rng.randrange(1 << 30)})
    elif directed == "ctor_reseed":
        for _ in range(12):
            entry, a = gen_call(rng, pool, small=True)
            steps.append({"op": "pollute", "kind": "ctor_with_seed_data", "which": rng.choice(["experiment", "qst", "povmt", "qpt", "qmpt"]), "s": rng.randrange(6)})
            steps.append({"op": "call", "entry": entry, "a": a, "stream": {"k": "int", "s": rng.randrange(6)}})
            steps.append({"op": "pollute", "kind": "reset_seed", "t": rng.choice(["qst", "povmt", "qpt", "qmpt", "exp"]), "s": rng.randrange(1, 6)})
            steps.append({"op": "call", "entry": entry, "a": a, "stream": {"k": "gen", "i": 0}})
            steps.append({"op": "pollute", "kind": "np_global_reseed", "s": rng.randrange(6)})
            steps.append({"op": "call", "entry": entry, "a": a, "stream": {"k": "none"}})
    elif directed == "keyword_calls":
        for t in ["qst", "povmt", "qpt", "qmpt"]:
            for entry in ["tomo_empi_dist", "tomo_empi_dists", "tomo_empi_seq"]:
                for kw in (True, False):
                    a = {"t": t, "obj": rng.choice(TRUE_NAMES[t][1]), "kw": kw}
                    if entry == "tomo_empi_dist":
                        a["sched"], a["num_sum"] = rng.randrange(_n_tomo_schedules(pool, t)), 50
                    elif entry == "tomo_empi_dists":
                        a["num_sum"] = 50
                    else:
                        a["num_sums"] = [10, 50]
                    steps.append({"op": "call", "entry": entry, "a": a, "stream": gen_stream(rng, pool)})
    elif directed == "concurrent_callers":
        for _ in range(10):
            steps.append(gen_concurrent(rng, pool))
            if rng.random() < 0.5:
                entry, a = gen_call(rng, pool, small=True)
                steps.append({"op": "call", "entry": entry, "a": a, "stream": gen_stream(rng, pool)})
    elif directed == "bulk_distribution":
        for v in range(len(pool["vectors"])):
            steps.append({"op": "call", "entry": "gen_data", "a": {"v": v, "n": 20000}, "stream": {"k": "gen", "i": 0}})
            steps.append({"op": "call", "entry": "gen_empi_seq", "a": {"v": v, "num_sums": [20000]}, "stream": {"k": "gen", "i": 0}})
            steps.append({"op": "call", "entry": "mult_sampling", "a": {"v": v, "num": 5000, "size": 4}, "stream": {"k": "gen", "i": 0}})
        for entry in ("exp_empi_seqs", "tomo_empi_seq", "tomo_empi_seq", "tomo_empi_seq", "tomo_empi_seq"):
            e, a = gen_call(rng, pool, entries=[(entry, 1)])
            if "num_sums" in a:
                a["num_sums"] = [20000]
            if "list_num_sums" in a:
                a["list_num_sums"] = [[20000] * len(pool["experiment"]["schedules"])]
            steps.append({"op": "call", "entry": e, "a": a, "stream": {"k": "gen", "i": 0}})
    else:
        nsteps = rng.randint(10, 80 if tier == "thorough" else 50)
        p_fault = 0.0 if fault_free else rng.choice([0.15, 0.3, 0.5])
        p_boundary = 0.0 if fault_free else rng.choice([0.0, 0.1, 0.25])
        p_twin = rng.choice([0.0, 0.1, 0.2])
        p_malformed = rng.choice([0.0, 0.05])
        p_replace = 0.0 if fault_free else rng.choice([0.0, 0.05, 0.1])
        p_reentrant = 0.0 if fault_free else rng.choice([0.0, 0.05, 0.12])
        p_concurrent = 0.0 if fault_free else rng.choice([0.0, 0.0, 0.04, 0.1])
        # swarm: a random subset of entry points gets most of the weight
        fav = set(rng.sample([e for e, _ in ENTRY_WEIGHTS], rng.randint(3, len(ENTRY_WEIGHTS))))
        entries = [(e, w * (3 if e in fav else 0.3)) for e, w in ENTRY_WEIGHTS]
        last_call = None
        while len(steps) < nsteps:
            r = rng.random()
            if r < p_fault:
                steps.append(gen_pollution(rng, pool))
            elif r < p_fault + p_boundary:
                which = rng.random()
                if which < 0.5:
                    v = rng.randrange(len(pool["vectors"]))
                    n = rng.choice([1, 3, 10, 40])
                    nums = boundary_numerators(rng, pool["vectors"][v], n, "random")
                    if rng.random() < 0.5:
                        steps.append({"op": "boundary", "entry": "gen_data", "a": {"v": v, "n": n}, "nums": nums})
                    else:
                        steps.append({"op": "boundary", "entry": "gen_dataset", "a": {"vs": [v], "ns": [n]}, "nums": nums})
                elif which < 0.75:
                    s = rng.randrange(len(pool["experiment"]["schedules"]))
                    steps.append({"op": "boundary_exp", "entry": "exp_data", "a": {"sched": s, "n": rng.choice([3, 10, 40])}, "mode": "random", "salt": rng.randrange(1 << 30)})
                else:
                    entry, a = gen_call(rng, pool, entries=[(e, w) for e, w in ENTRY_WEIGHTS if e not in DATA_ENTRIES], small=True)
                    ext = rng.choice(["zeros", "max", "mixed"])
                    steps.append({"op": "extreme", "entry": entry, "a": a, "ext": ext})
            elif r < p_fault + p_boundary + p_twin:
                entry, a = gen_call(rng, pool, entries)
                steps.append({"op": "twin", "entry": entry, "a": a, "stream": gen_stream(rng, pool) if rng.random() < 0.8 else {"k": "none"}})
                if steps[-1]["stream"]["k"] == "int":
                    steps[-1]["stream"] = {"k": "gen", "i": 0}
            elif r < p_fault + p_boundary + p_twin + p_malformed:
                steps.append(gen_malformed(rng, pool))
            elif r < p_fault + p_boundary + p_twin + p_malformed + p_reentrant:
                e1, a1 = gen_call(rng, pool, entries, small=True)
                e2, a2 = gen_call(rng, pool, entries, small=True)
                steps.append({"op": "interleaved", "outer": {"entry": e1, "a": a1, "seed": rng.randrange(40)}, "inner": {"entry": e2, "a": a2, "seed": rng.randrange(40)},
                              "at": [rng.choice(["_random_number_to_data", "_random_number_to_data", "to_stream", "validate_prob_dist", "generate_empi_dist_sequence_from_prob_dist", "calc_prob_dist",
                                                 "generate_data_from_prob_dist", "curried_random_number_to_data"]), rng.choice([1, 2, 3, 5])]})
            elif r < p_fault + p_boundary + p_twin + p_malformed + p_reentrant + p_concurrent:
                steps.append(gen_concurrent(rng, pool, entries))
            elif r < p_fault + p_boundary + p_twin + p_malformed + p_reentrant + p_concurrent + p_replace:
                what = rng.choice(["state", "state", "povm", "gate"])
                name = rng.choice({"state": STATE_NAMES, "povm": POVM_NAMES, "gate": GATE_NAMES}[what])
                steps.append({"op": "replace_in_experiment", "what": what, "i": rng.randrange(4), "name": name})
                s = rng.randrange(len(pool["experiment"]["schedules"]))
                steps.append({"op": "call", "entry": rng.choice(["exp_data", "exp_empi_seq", "exp_empi_seqs", "exp_dataset"]), "a": None, "stream": gen_stream(rng, pool)})
                e2, a2 = gen_call(rng, pool, entries=[(steps[-1]["entry"], 1)])
                steps[-1]["a"] = a2
            else:
                if last_call is not None and rng.random() < 0.3:
                    entry, a = last_call  # same request again, other stream kind / other point of the history
                else:
                    entry, a = gen_call(rng, pool, entries)
                last_call = (entry, a)
                stream = gen_stream(rng, pool, allow_none=True)
                if entry == "gen_dataset" and rng.random() < 0.4:
                    # one stream per distribution, of different kinds
                    items = []
                    for _ in a["vs"]:
                        it = gen_stream(rng, pool, allow_none=True)
                        if items and rng.random() < 0.35:
                            it = dict(rng.choice(items))  # the same seed / generator again
                        items.append(it)
                    stream = {"k": "mixed", "items": items}
                steps.append({"op": "call", "entry": entry, "a": a, "stream": stream})
    return {"engine": "rngsim", "seed": seed, "tier": tier, "opts": {k: v for k, v in opts.items() if k != "want_record"},
            "pool": to_jsonable(pool), "steps": steps}


def gen_concurrent(rng, pool, entries=None):
    """fault kind concurrent_callers: two or three seeded requests made by caller threads at the same time on the live
    world's shared objects (the flow's data-generation tasks do exactly this with one tomography object)."""
    n = rng.choice([2, 2, 3])
    reqs = []
    if rng.random() < 0.6:
        # the same tomography object, different true objects
        t = rng.choice(["qst", "povmt", "qpt", "qmpt"])
        names = list(TRUE_NAMES[t][1])
        for i in range(n):
            entry = rng.choice(["tomo_empi_seq", "tomo_empi_seq", "tomo_empi_dists", "tomo_empi_dist"])
            a = {"t": t, "obj": names[(rng.randrange(len(names)) + i) % len(names)] if i else rng.choice(names), "kw": rng.random() < 0.3}
            if i and a["obj"] == reqs[0]["a"]["obj"] and len(names) > 1:
                a["obj"] = [x for x in names if x != reqs[0]["a"]["obj"]][0]
            if entry == "tomo_empi_dist":
                a["sched"], a["num_sum"] = rng.randrange(_n_tomo_schedules(pool, t)), rng.choice([10, 60])
            elif entry == "tomo_empi_dists":
                a["num_sum"] = rng.choice([10, 60])
            else:
                a["num_sums"] = gen_num_sums(rng, 60)
            reqs.append({"entry": entry, "a": a, "seed": rng.randrange(40)})
    else:
        for _ in range(n):
            e, a = gen_call(rng, pool, entries, small=True)
            reqs.append({"entry": e, "a": a, "seed": rng.randrange(40)})
    return {"op": "concurrent", "reqs": reqs, "policy": {"kind": "bernoulli", "rate": rng.choice([0.01, 0.03, 0.1, 0.3])}, "salt": rng.randrange(1 << 30)}


def gen_malformed(rng, pool):
    kind = rng.choice(["non_increasing", "too_long", "too_long_middle", "too_long_first", "equal_sizes", "out_of_range", "out_of_range_late", "nan_prob", "nan_prob_exp", "inf_prob", "negative_measurement_num", "neg_prob", "bad_sum", "len_mismatch", "exp_neg_n", "exp_nonint_n", "negative_outcome", "negative_outcome_late"])
    return {"op": "malformed", "kind": kind, "salt": rng.randrange(1000)}


# ---------------------------------------------------------------------------------------------
# execution
# ---------------------------------------------------------------------------------------------
class Violation(Exception):
    def __init__(self, oracle, what, detail, signature):
        super().__init__(what)
        self.v = {"oracle": oracle, "what": what, "detail": detail, "signature": dict(signature, engine="rngsim", oracle=oracle)}


def _np_state():
    s = np.random.get_state()
    return (s[0], s[1].copy(), s[2], s[3], s[4])


def _np_state_digest(s=None):
    s = s or np.random.get_state()
    return digest([s[0], np.asarray(s[1]), int(s[2]), int(s[3]), float(s[4])])


def _gen_digest(g):
    st = g.bit_generator.state
    if "pos" in st.get("state", {}):  # MT19937
        return digest([np.asarray(st["state"]["key"]), int(st["state"]["pos"])])
    # any other bit generator (PCG64, Philox, SFC64): canonical form of its state dictionary
    return digest(repr(sorted((k, (v.tolist() if hasattr(v, "tolist") else ({kk: (vv.tolist() if hasattr(vv, "tolist") else vv) for kk, vv in sorted(v.items())} if isinstance(v, dict) else v))) for k, v in st.items())))


def _py_digest():
    s = pyrandom.getstate()
    return digest([s[0], list(s[1]), s[2]])


class Run:
    def __init__(self, record):
        self.record = record
        self.pool = from_jsonable(record["pool"])
        self.steps = record["steps"]
        self.stats = {"faults": {}, "probes": {}, "oracle_checks": {}, "steps": 0}
        self.log = []
        self.kinds = []
        self.compared_calls = 0
        self.fault_between = False
        self.pending_fault = False
        self.v2 = {}
        self.used_int_seeds = set()

    def bump(self, table, key, n=1):
        d = self.stats[table]
        d[key] = d.get(key, 0) + n

    def fresh_world(self):
        """a newly built world; building it must not disturb the live world's process-global random state
        (constructors given seed_data re-seed numpy's global state)."""
        np_s, py_s = np.random.get_state(), pyrandom.getstate()
        try:
            return World(self.pool)
        finally:
            np.random.set_state(np_s)
            pyrandom.setstate(py_s)

    # --- stream materialisation --------------------------------------------------------------
    def _mixed(self, spec, gens, rss):
        out = []
        for it in spec["items"]:
            if it["k"] == "int":
                out.append(it["s"])
            elif it["k"] == "gen":
                out.append(gens[it["i"]])
            elif it["k"] == "rs":
                out.append(rss[it["i"] % len(rss)])
            else:
                out.append(None)
        return out

    def live_stream(self, entry, spec, a):
        k = spec["k"]
        if k == "mixed":
            return self._mixed(spec, self.gens, self.rstates)
        if k == "int":
            if entry == "gen_dataset":
                return [spec["s"] + j for j in range(len(a["vs"]))]
            return spec["s"]
        if k == "gen":
            g = self.gens[spec["i"]]
            return [g] * len(a["vs"]) if entry == "gen_dataset" else g
        if k == "rs":
            g = self.rstates[spec["i"] % len(self.rstates)]
            return [g] * len(a["vs"]) if entry == "gen_dataset" else g
        if k == "none":
            return None
        raise ValueError(k)

    def shadow_stream(self, entry, spec, a):
        if spec["k"] == "mixed":
            return self._mixed(spec, self.shadows, self.rshadows)
        if spec["k"] == "gen":
            g = self.shadows[spec["i"]]
            return [g] * len(a["vs"]) if entry == "gen_dataset" else g
        if spec["k"] == "rs":
            g = self.rshadows[spec["i"] % len(self.rshadows)]
            return [g] * len(a["vs"]) if entry == "gen_dataset" else g
        return self.live_stream(entry, spec, a)

    # --- a second call made while the first one is in progress ------------------------------------
    def do_interleaved(self, idx, st):
        """fault kind reentrant_call: at the k-th entry of a quara function inside the outer request, another request (other
        arguments, its own integer seed) runs to completion - the deterministic, single-threaded image of two threads in the
        generation code at once.  Both outputs must be what each request returns alone."""
        import sys

        MON = sys.monitoring
        outer, inner = st["outer"], st["inner"]
        fresh = self.fresh_world()
        np_s, py_s = np.random.get_state(), pyrandom.getstate()
        try:
            ref_outer = _canon(call_entry(fresh, outer["entry"], outer["a"], outer["seed"]))
            ref_inner = _canon(call_entry(self.fresh_world(), inner["entry"], inner["a"], inner["seed"]))
        except Exception:
            return
        finally:
            np.random.set_state(np_s)
            pyrandom.setstate(py_s)
        box = {"n": 0, "inner_out": None, "busy": False, "fired": False}
        target, occ = st["at"]
        world = self.world

        def cb(code, offset):
            if box["busy"] or code.co_name != target:
                return
            box["n"] += 1
            if box["n"] == occ:
                box["busy"] = True
                try:
                    box["inner_out"] = _canon(call_entry(world, inner["entry"], inner["a"], inner["seed"]))
                    box["fired"] = True
                finally:
                    box["busy"] = False

        TOOL = 2
        try:
            MON.use_tool_id(TOOL, "rngsim-reentrant")
        except ValueError:
            pass
        MON.register_callback(TOOL, MON.events.PY_START, cb)
        MON.set_events(TOOL, MON.events.PY_START)
        try:
            out_outer = _canon(call_entry(self.world, outer["entry"], outer["a"], outer["seed"]))
        finally:
            MON.set_events(TOOL, 0)
            MON.register_callback(TOOL, MON.events.PY_START, None)
            try:
                MON.free_tool_id(TOOL)
            except ValueError:
                pass
        self.log.append(["interleaved", digest(out_outer), box["fired"]])
        if not box["fired"]:
            return
        self.bump("faults", "reentrant_call")
        self.bump("oracle_checks", "R5_reentrant")
        self.pending_fault = True
        sig = {"op": "interleaved", "outer": outer["entry"], "inner": inner["entry"], "at": target}
        if not outputs_equal(out_outer, ref_outer):
            raise Violation("R5_reentrant", f"{outer['entry']} (seed {outer['seed']}) returned something else than alone when {inner['entry']} ran during its {occ}-th entry of {target}",
                            {"step": idx, "outer": outer, "inner": inner, "at": st["at"]}, sig)
        if not outputs_equal(box["inner_out"], ref_inner):
            raise Violation("R5_reentrant", f"{inner['entry']} (seed {inner['seed']}) returned something else than alone when it ran inside {outer['entry']} (at the {occ}-th entry of {target})",
                            {"step": idx, "outer": outer, "inner": inner, "at": st["at"]}, dict(sig, which="inner"))

    def do_concurrent(self, idx, st):
        """fault kind concurrent_callers: the requests run as baton-passing threads (pre-empted at quara function entries
        by a seeded or recorded switch list) on the live world's shared objects; each must return what it returns alone."""
        import os

        import quara
        from poolsim.simpool import Decider, Sim, SimAbort, SimClock

        reqs = st["reqs"]
        np_s, py_s = np.random.get_state(), pyrandom.getstate()
        try:
            refs = [_canon(call_entry(self.fresh_world(), r["entry"], r["a"], r["seed"])) for r in reqs]
        except Exception:
            return
        finally:
            np.random.set_state(np_s)
            pyrandom.setstate(py_s)
        if st.get("sched") is not None:
            dec = Decider(record={"proc": [], "threads": [dict(e) for e in st["sched"]]})
        else:
            dec = Decider(rng=pyrandom.Random(st["salt"]), policy=dict(st["policy"]))
        sim = Sim(dec, SimClock(), os.path.dirname(os.path.abspath(quara.__file__)) + os.sep, max_yields=3_000_000)
        world = self.world
        tasks = [((lambda r=r: _canon(call_entry(world, r["entry"], r["a"], r["seed"]))), (), {}) for r in reqs]
        exc = None
        try:
            outs = sim.parallel(len(reqs), tasks, force_threads=True)
        except SimAbort:
            raise
        except Exception as e:
            exc, outs = e, None
        finally:
            np.random.set_state(np_s)
            pyrandom.setstate(py_s)
        if st.get("sched") is None:
            st["sched"] = [{k: v for k, v in e.items() if not k.startswith("_")} for e in dec.rec["threads"]]
        n_sw = sim.faults.get("thread_preempt", 0)
        self.log.append(["concurrent", digest(outs) if outs is not None else type(exc).__name__, n_sw])
        self.bump("oracle_checks", "R6_concurrent_callers")
        if n_sw:
            self.bump("faults", "concurrent_callers_preempted", n_sw)
            self.pending_fault = True
        sig = {"op": "concurrent", "entries": sorted(set(r["entry"] for r in reqs))}
        if exc is not None:
            raise Violation("R6_concurrent_callers", f"a seeded request raised {type(exc).__name__} when made concurrently with others ({[r['entry'] for r in reqs]}), none of them raises alone: {str(exc)[:200]}",
                            {"step": idx, "reqs": reqs, "sched": st["sched"]}, dict(sig, how="exception"))
        for r, o, ref in zip(reqs, outs, refs):
            if not outputs_equal(o, ref):
                raise Violation("R6_concurrent_callers", f"{r['entry']} (seed {r['seed']}, {r['a']}) returned something else than alone when {len(reqs) - 1} other seeded request(s) ran concurrently ({n_sw} thread switches)",
                                {"step": idx, "reqs": reqs, "sched": st["sched"]}, sig)

    # --- one generation call with all oracles -------------------------------------------------
    def do_call(self, idx, entry, a, spec, crafted=None):
        sig = {"op": "call", "entry": entry, "stream": spec["k"] if crafted is None else "crafted"}
        fresh = self.fresh_world()
        if entry.startswith("exp_"):
            self.bump("oracle_checks", "V4_born_rule")
            msg = born_rule_check(fresh)
            if msg:
                raise Violation("V4_requested_distribution", msg, {"step": idx, "entry": entry}, {"op": "call", "entry": entry, "how": "born_rule"})
        shape = expected_shape(fresh, entry, a)
        np0, py0 = _np_state(), pyrandom.getstate()
        np0_d, py0_d = _np_state_digest(np0), _py_digest()
        gens0 = [_gen_digest(g) for g in self.gens]
        if crafted is not None:
            stream_live = craft_generator(crafted)
            stream_ref = craft_generator(crafted)
            if entry == "gen_dataset":
                stream_live, stream_ref = [stream_live] * len(a["vs"]), [stream_ref] * len(a["vs"])
        else:
            stream_live = self.live_stream(entry, spec, a)
        # ---- live call
        SimThreadPoolExecutor.ORDER_RNG = pyrandom.Random(self.record["seed"] * 1000003 + idx)
        try:
            out = call_entry(self.world, entry, a, stream_live)
            exc = None
        except Exception as e:  # a well-formed request must not raise
            SimThreadPoolExecutor.ORDER_RNG = None
            raise Violation("V0_wellformed_call_raises", f"{entry} raised {type(e).__name__}: {str(e)[:200]}",
                            {"step": idx, "entry": entry, "args": a, "stream": spec}, dict(sig, exc=type(e).__name__))
        finally_reset = SimThreadPoolExecutor.ORDER_RNG
        SimThreadPoolExecutor.ORDER_RNG = None
        out = _canon(out)
        np1, py1_d = _np_state(), _py_digest()
        np1_d = _np_state_digest(np1)
        gens1 = [_gen_digest(g) for g in self.gens]
        self.log.append([entry, digest(out)])
        # ---- V1 validity
        self.bump("oracle_checks", "V1")
        msg = check_validity(shape, out)
        if msg:
            where = "zero_prob_last_category" if "LASTCAT" in msg else ("zero_prob" if "probability exactly 0" in msg else ("distribution" if "DISTRIBUTION" in msg else "shape_or_counts"))
            if where == "distribution" and crafted is not None:
                msg = None  # a crafted stream is not a sample of the distribution; only support and shape are judged
        if msg:
            raise Violation("V1_validity", msg.replace(" LASTCAT", "").replace(" DISTRIBUTION", ""), {"step": idx, "entry": entry, "args": a, "stream": spec if crafted is None else {"k": "crafted", "nums": crafted}},
                            dict(sig, where=where, route="data" if entry in DATA_ENTRIES else "multinomial"))
        # ---- isolation of the random state (R1/R2/R3)
        k = spec["k"] if crafted is None else "crafted"
        mixed_gens = {it["i"] for it in spec.get("items", []) if it["k"] == "gen"} if k == "mixed" else set()
        mixed_none = k == "mixed" and any(it["k"] == "none" for it in spec["items"])
        if py1_d != py0_d:
            raise Violation("R_isolation", f"{entry} changed the state of python's `random`", {"step": idx, "entry": entry}, dict(sig, state="py_random"))
        if k != "none" and not mixed_none and np1_d != np0_d:
            raise Violation("R_isolation", f"{entry} with stream kind {k} changed the global numpy random state", {"step": idx, "entry": entry, "args": a, "stream": spec}, dict(sig, state="np_global"))
        for j, (d0, d1) in enumerate(zip(gens0, gens1)):
            if d0 != d1 and not (k == "gen" and spec["i"] == j) and j not in mixed_gens:
                raise Violation("R_isolation", f"{entry} with stream kind {k} advanced unrelated pool generator {j}", {"step": idx, "entry": entry, "args": a, "stream": spec}, dict(sig, state="pool_generator"))
        # ---- reference call in a fresh world
        self.bump("oracle_checks", {"int": "R1", "gen": "R2", "rs": "R2_legacy_generator", "none": "R3", "crafted": "R1", "mixed": "R_mixed_stream_list"}[k])
        try:
            if k == "int":
                np.random.seed(PRISTINE_SEED)
                pyrandom.seed(PRISTINE_SEED)
                ref = call_entry(fresh, entry, a, stream_live)
            elif k == "crafted":
                np.random.seed(PRISTINE_SEED)
                ref = call_entry(fresh, entry, a, stream_ref)
            elif k in ("gen", "rs"):
                np.random.seed(PRISTINE_SEED)
                ref = call_entry(fresh, entry, a, self.shadow_stream(entry, spec, a))
            elif k == "mixed":
                if mixed_none:
                    np.random.set_state(np0)
                else:
                    np.random.seed(PRISTINE_SEED)
                ref = call_entry(fresh, entry, a, self.shadow_stream(entry, spec, a))
                if mixed_none and _np_state_digest() != np1_d:
                    raise Violation("R3_global_stream", f"{entry} with a stream list containing None: live and reference calls consumed the global state differently", {"step": idx, "entry": entry, "args": a, "stream": spec}, sig)
            else:
                np.random.set_state(np0)
                ref = call_entry(fresh, entry, a, None)
                ref_after = _np_state_digest()
                if ref_after != np1_d:
                    raise Violation("R3_global_stream", f"{entry} with the global stream: live and reference calls consumed the global state differently", {"step": idx, "entry": entry, "args": a}, sig)
        except Violation:
            raise
        except Exception as e:
            raise Violation("R_reference_raises", f"{entry} succeeded in the live world but raised {type(e).__name__} in the fresh world", {"step": idx, "entry": entry, "args": a, "stream": spec}, sig)
        finally:
            np.random.set_state(np1)
            pyrandom.setstate(py0)
        ref = _canon(ref)
        self.compared_calls += 1
        if self.pending_fault and self.compared_calls >= 2:
            self.fault_between = True
        if not outputs_equal(out, ref):
            names = {"int": "R1_seed_function", "crafted": "R1_seed_function", "gen": "R2_shared_generator", "none": "R3_global_stream", "mixed": "R_mixed_stream_list", "rs": "R2_shared_generator"}
            raise Violation(names[k], f"{entry} (stream kind {k}): output differs from the same call in a fresh world",
                            {"step": idx, "entry": entry, "args": a, "stream": spec, "live": to_jsonable(out) if len(str(out)) < 2000 else "…", "reference": to_jsonable(ref) if len(str(ref)) < 2000 else "…"}, sig)
        if k == "mixed":
            for it in spec["items"]:
                if it["k"] == "rs":
                    j = it["i"] % len(self.rstates)
                    if _np_state_digest(self.rstates[j].get_state()) != _np_state_digest(self.rshadows[j].get_state()):
                        raise Violation("R2_shared_generator", f"{entry}: legacy generator {j} of the stream list ends in a state that differs from the reference model's", {"step": idx, "entry": entry, "args": a, "stream": spec}, sig)
        for j in sorted(mixed_gens):
            if _gen_digest(self.gens[j]) != _gen_digest(self.shadows[j]):
                raise Violation("R2_shared_generator", f"{entry}: generator {j} of the stream list ends in a state that differs from the reference model's", {"step": idx, "entry": entry, "args": a, "stream": spec}, sig)
        if k == "rs":
            j = spec["i"] % len(self.rstates)
            if _np_state_digest(self.rstates[j].get_state()) != _np_state_digest(self.rshadows[j].get_state()):
                raise Violation("R2_shared_generator", f"{entry}: the legacy generator object handed over ends in a state that differs from the reference model's (was it used at all?)", {"step": idx, "entry": entry, "args": a}, dict(sig, state="legacy_generator"))
        if k == "gen":
            if _gen_digest(self.gens[spec["i"]]) != _gen_digest(self.shadows[spec["i"]]):
                raise Violation("R2_shared_generator", f"{entry}: shared generator state after the call differs from the reference model's", {"step": idx, "entry": entry, "args": a}, sig)
            # a non-degenerate random output cannot be produced without consuming the stream; a generator that is
            # left where it was would make the next identical request return the same output with certainty
            if gens0[spec["i"]] == gens1[spec["i"]] and collision_bound(shape) < 0.5:
                raise Violation("R2_shared_generator", f"{entry}: the shared generator did not advance", {"step": idx, "entry": entry, "args": a}, dict(sig, state="not_advanced"))
        # ---- documented decomposition: the dataset is a list of data generated by generate_data_from_prob_dist, so an entry
        # given its own integer seed is a function of that seed alone (not of its neighbours in the list)
        if entry == "gen_dataset" and k in ("int", "mixed"):
            seeds = stream_live if k == "int" else [it["s"] if it["k"] == "int" else None for it in spec["items"]]
            for j, sd in enumerate(seeds):
                if not isinstance(sd, int):
                    continue
                self.bump("oracle_checks", "R1_dataset_entry_alone")
                np.random.seed(PRISTINE_SEED)
                try:
                    alone = dg.generate_data_from_prob_dist(self.world.vectors[a["vs"][j]].copy(), a["ns"][j], sd)
                finally:
                    np.random.set_state(np1)
                if list(alone) != list(out[j]):
                    raise Violation("R1_seed_function", f"gen_dataset: entry {j} (seed {sd}) differs from generate_data_from_prob_dist with the same seed alone", {"step": idx, "args": a, "stream": spec, "entry_index": j}, dict(sig, how="dataset_entry_alone"))
        # ---- V3: the leaves of one output are independent draws: leaves with the same distribution and size must not be
        # copies of one another (judged only when that is astronomically unlikely)
        if crafted is None:
            self.check_leaf_independence(idx, entry, a, spec, shape, out, sig)
        # ---- V2 accumulation (independent streams only)
        if k == "gen" or (k == "int" and self._first_use(entry, spec, a)):
            self.accumulate(shape, out)
        return out, shape

    def check_leaf_independence(self, idx, entry, a, spec, shape, out, sig):
        groups = {}
        for leaf, part, where in _walk(shape, out):
            kind, p, n = leaf
            if kind != "empi" or n < 50:
                continue
            key = (digest(np.asarray(p)), int(n))
            groups.setdefault(key, []).append((np.asarray(p, dtype=float), n, digest(_canon(part))))
        for key, leaves in groups.items():
            if len(leaves) < 2:
                continue
            self.bump("oracle_checks", "V3_leaf_independence")
            p, n = leaves[0][0], leaves[0][1]
            cb = _multinomial_collision_bound(p, n)
            k = len(leaves)
            m = k - len({d for _, _, d in leaves})
            if m == 0:
                continue
            p_event = (k * (k - 1) / 2 * cb) ** m
            if p_event < 1e-12:
                raise Violation("V3_leaf_independence", f"{entry}: {m} of {k} empirical distributions with the same distribution and size n={n} are identical to another one of the same output (probability <= {p_event:.1e} for independent draws)",
                                {"step": idx, "entry": entry, "args": a, "stream": spec, "p": p.tolist()}, dict(sig, how="copies_within_output"))
            self.bump("probes", "V3_undecided_coincidence")

    @staticmethod
    def _consumes(shape):
        for leaf, _, _ in _walk(shape, _dummy_like(shape)):
            if leaf[2] > 0:
                return True
        return False

    def _first_use(self, entry, spec, a):
        seeds = [spec["s"] + j for j in range(len(a["vs"]))] if entry == "gen_dataset" else [spec["s"]]
        fresh = all(s not in self.used_int_seeds for s in seeds)
        self.used_int_seeds.update(seeds)
        return fresh

    def accumulate(self, shape, out):
        for leaf, part, _ in _walk(shape, out):
            kind, p, n = leaf
            if n <= 0:
                continue
            key = digest(np.asarray(p))
            acc = self.v2.setdefault(key, {"p": np.asarray(p, dtype=np.float64), "counts": np.zeros(len(p)), "N": 0})
            if kind == "data":
                acc["counts"] += np.bincount(np.asarray(part, dtype=int), minlength=len(p))
            elif kind == "empi":
                acc["counts"] += np.rint(part[1] * n)
            else:
                acc["counts"] += np.asarray(part)
            acc["N"] += n

    def check_v2(self):
        for key, acc in self.v2.items():
            N, p = acc["N"], acc["p"]
            if N < 200:
                continue
            self.bump("oracle_checks", "V2")
            self.bump("probes", "v2_checks")
            bound = math.sqrt(math.log(2 * len(p) / 1e-15) / (2 * N))
            pn = p / p.sum()
            dev = np.abs(acc["counts"] / N - pn)
            j = int(np.argmax(dev))
            if dev[j] > bound:
                raise Violation("V2_distribution", f"pooled frequency of outcome {j} is {acc['counts'][j] / N:.4f} over N={N}, probability {pn[j]:.4f}, Hoeffding bound {bound:.4f}",
                                {"p": p.tolist(), "counts": acc["counts"].tolist(), "N": N}, {"op": "v2"})

    # --- steps --------------------------------------------------------------------------------
    def step(self, idx, st):
        op = st["op"]
        if op == "call":
            self.kinds.append(["call", st["entry"], st["stream"]["k"]])
            if self.stats["probes"].get("_armed_ctor") and st["stream"]["k"] == "int":
                self.bump("probes", "seeded_call_right_after_ctor_reseed")
            if self.stats["probes"].get("_armed_reseed") and st["stream"]["k"] == "none":
                self.bump("probes", "none_stream_after_reseed")
            self.stats["probes"]["_armed_ctor"] = 0
            self.stats["probes"]["_armed_reseed"] = 0
            if st["stream"]["k"] == "gen" and st["entry"].startswith("tomo_"):
                users = self.gen_users.setdefault(st["stream"]["i"], set())
                users.add(st["a"]["t"])
                if len(users) == 2:
                    self.bump("probes", "generator_shared_by_two_tomography_objects")
            self.do_call(idx, st["entry"], st["a"], st["stream"])
        elif op == "twin":
            self.kinds.append(["twin", st["entry"], st["stream"]["k"]])
            o1, shape = self.do_call(idx, st["entry"], st["a"], st["stream"])
            o2, _ = self.do_call(idx, st["entry"], st["a"], st["stream"])
            cb = collision_bound(shape)
            self.bump("oracle_checks", "R2_successive_differ")
            if cb < 1e-12:
                self.bump("probes", "twin_call_decisive")
                if outputs_equal(o1, o2):
                    raise Violation("R2_successive_differ", f"{st['entry']}: two successive calls on one {st['stream']['k']} stream returned identical output (collision probability <= {cb:.1e})",
                                    {"step": idx, "entry": st["entry"], "args": st["a"], "stream": st["stream"]}, {"op": "twin", "entry": st["entry"], "stream": st["stream"]["k"]})
            else:
                self.bump("probes", "twin_call_trivial")
        elif op == "pollute":
            self.kinds.append(["pollute", st["kind"]])
            self.pollute(st)
            self.bump("faults", st["kind"])
            if self.compared_calls >= 1:
                self.pending_fault = True
        elif op in ("boundary", "boundary_exp", "extreme"):
            self.kinds.append([op, st["entry"]])
            if op == "boundary":
                nums = st["nums"]
                ps = [self.world.vectors[st["a"]["v"]]] if "v" in st["a"] else [self.world.vectors[i] for i in st["a"]["vs"]]
            elif op == "boundary_exp":
                ps_all = [np.array(p, dtype=np.float64) for p in self.fresh_world().exp.calc_prob_dists()]
                r = pyrandom.Random(st["salt"])
                if st["entry"] == "exp_data":
                    ps = [ps_all[st["a"]["sched"]]]
                    nums = boundary_numerators(r, ps[0], st["a"]["n"], st["mode"])
                else:
                    ps = ps_all
                    nums = []
                    for p, n in zip(ps_all, st["a"]["ns"]):
                        nums += boundary_numerators(r, p, n, st["mode"])
                nums = nums[:312]
            else:
                n = 312
                r = pyrandom.Random(idx)
                nums = {"zeros": [0] * n, "max": [TWO53 - 1] * n, "mixed": [r.choice([0, TWO53 - 1, 1 << 52]) for _ in range(n)]}[st["ext"]]
                ps = []
            self.bump("faults", "crafted_extreme_stream" if op == "extreme" else "crafted_boundary_stream")
            self.boundary_probes(ps, nums)
            if self.compared_calls >= 1:
                self.pending_fault = True
            self.do_call(idx, st["entry"], st["a"], {"k": "crafted"}, crafted=nums)
        elif op == "interleaved":
            self.kinds.append(["interleaved", st["outer"]["entry"], st["inner"]["entry"], st["at"][0]])
            self.do_interleaved(idx, st)
        elif op == "concurrent":
            self.kinds.append(["concurrent"] + [r["entry"] for r in st["reqs"]])
            self.do_concurrent(idx, st)
        elif op == "malformed":
            self.kinds.append(["malformed", st["kind"]])
            self.malformed(idx, st)
        elif op == "replace_in_experiment":
            # experiment.states[i] = other_state  (list item assignment, as StandardQst.generate_empi_dist does on its copy).
            # The recipe is updated too, so every fresh world built afterwards contains the new operation.
            self.kinds.append(["replace_in_experiment", st["what"]])
            e = self.pool["experiment"]
            names = e[st["what"] + "s" if st["what"] != "mprocess" else "mprocesses"]
            if not names:
                return
            i = st["i"] % len(names)
            names[i] = st["name"]
            w = self.world
            if st["what"] == "state":
                w.exp.states[i] = w.states[st["name"]]
            elif st["what"] == "povm":
                w.exp.povms[i] = w.povms[st["name"]]
            else:
                w.exp.gates[i] = w.gates[st["name"]]
            self.bump("faults", "in_place_operation_replacement")
            if self.compared_calls >= 1:
                self.pending_fault = True
        else:
            raise ValueError(op)

    def boundary_probes(self, ps, nums):
        offs = 0
        for p in ps:
            cs = partial_sums(p)
            for k in nums:
                d = k / TWO53
                for j, c in enumerate(cs[:-1]):
                    if d == c:
                        self.bump("probes", "boundary_draw_exactly_on_partial_sum")
                        if p[j + 1] == 0.0:
                            self.bump("probes", "boundary_draw_on_sum_followed_by_zero_prob")
                        break
                if cs[-1] < 1.0 and d >= cs[-1]:
                    self.bump("probes", "boundary_draw_at_or_above_float_total_below_one")
                if k == 0 and p[0] == 0.0:
                    self.bump("probes", "boundary_draw_zero_with_leading_zero_prob")

    def pollute(self, st):
        kind = st["kind"]
        if kind == "np_global_draws":
            n = st["n"]
            if st["how"] == "random":
                np.random.random(n)
            elif st["how"] == "randint":
                np.random.randint(0, 10, size=n)
            elif st["how"] == "normal":
                np.random.normal(size=n)
            else:
                np.random.multinomial(10, [0.2, 0.3, 0.5], size=n)
        elif kind == "np_global_reseed":
            np.random.seed(st["s"])
            self.stats["probes"]["_armed_reseed"] = 1
        elif kind == "py_random_reseed":
            pyrandom.seed(st["s"])
        elif kind == "ctor_with_seed_data":
            w = self.world
            t = self.pool["tomo"]
            tst = [w.states[n] for n in t["states"]]
            tpv = [w.povms[n] for n in t["povms"]]
            s = st["s"]
            if st["which"] == "experiment":
                Experiment(states=[w.states["z0"]], povms=[w.povms["z"]], gates=[], schedules=[[("state", 0), ("povm", 0)]], seed_data=s)
            elif st["which"] == "qst":
                StandardQst(tpv, seed_data=s)
            elif st["which"] == "povmt":
                StandardPovmt(tst, num_outcomes=2, seed_data=s)
            elif st["which"] == "qpt":
                StandardQpt(tst, tpv, seed_data=s)
            else:
                StandardQmpt(tst, tpv, num_outcomes=2, seed_data=s)
            self.bump("oracle_checks", "R4_object_seed")
            if _np_state_digest() != _np_state_digest(np.random.RandomState(s).get_state()):
                raise Violation("R4_object_seed", f"constructing {st['which']} with seed_data={s} did not leave the global random state seeded with {s}", {"which": st["which"], "s": s},
                                {"op": "pollute", "kind": "ctor_with_seed_data", "which": st["which"]})
            self.stats["probes"]["_armed_ctor"] = 1
            self.stats["probes"]["_armed_reseed"] = 1
        elif kind == "reset_seed_noarg":
            # reset_seed() without an argument re-applies the object's current data seed (the one given last)
            t = st["t"]
            cur = self.obj_seed.get(t)
            before = _np_state_digest()
            self.world.tomo[t].reset_seed()
            self.bump("oracle_checks", "R4_object_seed")
            want = _np_state_digest(np.random.RandomState(cur).get_state()) if cur is not None else before
            if _np_state_digest() != want:
                raise Violation("R4_object_seed", f"reset_seed() on {t} whose current data seed is {cur}: the global random state is not the state seeded with it",
                                {"t": t, "current_seed": cur}, {"op": "pollute", "kind": "reset_seed_noarg"})
            self.stats["probes"]["_armed_reseed"] = 1
        elif kind == "reset_seed":
            self.obj_seed[st["t"]] = st["s"]
            if st["t"] == "exp":
                self.world.exp.reset_seed_data(st["s"])
            else:
                self.world.tomo[st["t"]].reset_seed(st["s"])
            # R4: the data seed of an object is an explicit seed: after it is (re)set, a request without a stream must be a
            # function of that seed - i.e. the global state is exactly what numpy's own seeding with that integer gives
            self.bump("oracle_checks", "R4_object_seed")
            want = np.random.RandomState(st["s"]).get_state()
            if _np_state_digest() != _np_state_digest(want):
                raise Violation("R4_object_seed", f"after reset of the data seed to {st['s']} on {st['t']} the global random state is not the state seeded with {st['s']}",
                                {"t": st["t"], "s": st["s"]}, {"op": "pollute", "kind": "reset_seed", "t": "exp" if st["t"] == "exp" else "tomo"})
            self.stats["probes"]["_armed_ctor"] = 1
            self.stats["probes"]["_armed_reseed"] = 1
        elif kind == "foreign_draws_on_shared_generator":
            for g in (self.gens[st["i"]], self.shadows[st["i"]]):
                if st["how"] == "random":
                    g.random(st["n"])
                elif st["how"] == "integers":
                    g.integers(0, 100, size=st["n"])
                else:
                    g.normal(size=st["n"])
        else:
            raise ValueError(kind)

    def malformed(self, idx, st):
        kind = st["kind"]
        V = self.world.vectors
        data = [i % 2 for i in range(20)]
        expected = ValueError

        def f():
            if kind == "non_increasing":
                return dg.calc_empi_dist_sequence(2, data, [5 + st["salt"] % 5, 5])
            if kind == "too_long":
                return dg.calc_empi_dist_sequence(2, data, [5, 21 + st["salt"] % 3])
            if kind == "too_long_middle":
                return dg.calc_empi_dist_sequence(2, data, [10, 25 + st["salt"] % 3, 20])
            if kind == "too_long_first":
                return dg.calc_empi_dists_sequence([2, 2], [data, data], [[5, 10], [21, 22]])
            if kind == "equal_sizes":
                return dg.calc_empi_dist_sequence(2, data, [5, 7, 7])
            if kind == "out_of_range_late":
                return dg.calc_empi_dist_sequence(2, data[:19] + [5], [10, 20])
            if kind == "out_of_range":
                return dg.calc_empi_dist_sequence(2, data[:7] + [2] + data[8:], [10])
            if kind == "negative_outcome":
                return dg.calc_empi_dist_sequence(2 + st["salt"] % 2, data[:3] + [-1 - st["salt"] % 2] + data[4:], [10, 20])
            if kind == "negative_outcome_late":
                return dg.calc_empi_dist_sequence(3, data[:15] + [-1] + data[16:], [10, 20])
            if kind == "negative_measurement_num":
                return dg.calc_empi_dist_sequence(-1, data, [10])
            if kind == "nan_prob":
                return dg.generate_data_from_prob_dist(np.array([float("nan"), 0.5]), 10, 1)
            if kind == "inf_prob":
                return dg.generate_data_from_prob_dist(np.array([float("inf"), 0.5]), 10, 1)
            if kind == "nan_prob_exp":
                return MultinomialDistribution(np.array([float("nan"), float("nan")]))
            if kind == "neg_prob":
                return dg.generate_data_from_prob_dist(np.array([1.5, -0.5]), 10, 1)
            if kind == "bad_sum":
                return dg.generate_data_from_prob_dist(np.array([0.5, 0.4]), 10, 1)
            if kind == "len_mismatch":
                return dg.generate_dataset_from_prob_dists([V[0], V[0]], [10], None)
            if kind == "exp_neg_n":
                return self.world.exp.generate_data(0, -1, 1)
            if kind == "exp_nonint_n":
                return self.world.exp.generate_data(0, 2.0, 1)
            raise ValueError(kind)

        if kind == "exp_nonint_n":
            expected = TypeError
        np0, gens0 = _np_state_digest(), [_gen_digest(g) for g in self.gens]
        self.bump("oracle_checks", "V1_malformed")
        try:
            out = f()
        except expected:
            self.bump("probes", "malformed_request_raised")
        except Exception as e:
            raise Violation("V1_malformed", f"malformed request {kind} raised {type(e).__name__} instead of {expected.__name__}", {"step": idx, "kind": kind}, {"op": "malformed", "kind": kind})
        else:
            raise Violation("V1_malformed", f"malformed request {kind} was accepted and returned {str(out)[:200]}", {"step": idx, "kind": kind}, {"op": "malformed", "kind": kind})
        if _np_state_digest() != np0 or [_gen_digest(g) for g in self.gens] != gens0:
            raise Violation("R_isolation", f"rejected malformed request {kind} consumed random numbers", {"step": idx, "kind": kind}, {"op": "malformed", "kind": kind, "state": "consumed"})

    # --- prefix / cumulative consistency (deterministic half of V1) ------------------------------
    def check_prefix(self, idx):
        r = pyrandom.Random(idx * 7919 + self.record["seed"] % 1000003)
        m = r.randint(1, 6)
        data = [r.randrange(m) for _ in range(r.randint(1, 120))]
        ks = sorted(set(r.randint(1, len(data)) for _ in range(r.randint(1, 4))))
        self.bump("oracle_checks", "V1_prefix")
        try:
            seq = dg.calc_empi_dist_sequence(m, list(data), list(ks))
            seqs = dg.calc_empi_dists_sequence([m, m], [list(data), list(reversed(data))], [list(ks), list(ks)])
        except Exception as e:
            raise Violation("V0_wellformed_call_raises", f"calc_empi_dist_sequence raised {type(e).__name__}: {e}", {"m": m, "data": data, "num_sums": ks}, {"op": "prefix"})
        for which, (dat, sq) in enumerate([(data, seq), (data, seqs[0]), (list(reversed(data)), seqs[1])]):
            if len(sq) != len(ks):
                raise Violation("V1_prefix", f"calc_empi_dist_sequence returned {len(sq)} distributions for {len(ks)} sizes", {"m": m, "data": dat, "num_sums": ks}, {"op": "prefix"})
            prev = None
            for k, (n, vec) in zip(ks, sq):
                want = np.bincount(np.asarray(dat[:k], dtype=int), minlength=m) / k
                if n != k or not isinstance(vec, np.ndarray) or vec.dtype != np.float64 or vec.shape != (m,) or np.any(vec != want):
                    raise Violation("V1_prefix", f"empirical distribution for prefix {k} is {np.asarray(vec).tolist()}, counting the first {k} outcomes gives {want.tolist()}",
                                    {"m": m, "data": dat, "num_sums": ks, "variant": which}, {"op": "prefix"})
                cnt = np.rint(vec * k)
                if prev is not None and (np.any(cnt - prev[1] < 0) or int((cnt - prev[1]).sum()) != k - prev[0]):
                    raise Violation("V1_prefix", "cumulative sequence is not consistent", {"m": m, "data": dat, "num_sums": ks}, {"op": "prefix"})
                prev = (k, cnt)
        if data != data[:] or len(seq) == 0:
            pass

    def execute(self):
        viol = []
        np.random.seed(self.record["seed"] % (2 ** 32))  # "OS entropy" of this simulated process
        pyrandom.seed(self.record["seed"])
        self.world = World(self.pool)
        sd = self.pool["tomo"].get("seed_data")
        self.obj_seed = {"qst": sd, "povmt": sd, "qpt": sd, "qmpt": sd, "exp": self.pool["experiment"].get("seed_data")}
        # bit generators: MT19937 (what quara builds from integer seeds) and, for some pool generators, the ones numpy hands
        # out today (default_rng is PCG64) - a caller may pass any Generator
        kinds = self.pool.get("gen_kinds") or ["mt"] * len(self.pool["gens"])
        self.gens = [np.random.Generator({"mt": np.random.MT19937, "pcg": np.random.PCG64, "philox": np.random.Philox, "sfc": np.random.SFC64}[k](s)) for s, k in zip(self.pool["gens"], kinds)]
        self.shadows = [copy.deepcopy(g) for g in self.gens]
        # legacy generator objects (numpy RandomState) handed over explicitly: they work with every entry point today
        self.rstates = [np.random.RandomState(5000 + s) for s in self.pool["gens"]]
        self.rshadows = [copy.deepcopy(g) for g in self.rstates]
        self.gen_users = {}
        from simcore.known import known_signatures, matches

        known = known_signatures("C14")
        try:
            for idx, st in enumerate(self.steps):
                self.stats["steps"] += 1
                try:
                    self.step(idx, st)
                except Violation as e:
                    # a listed finding must not mask what comes after it: record it and carry on
                    # (the failing oracles run before any state is touched, so the worlds stay in sync)
                    if matches(known, e.v["signature"]) and len(viol) < 20:
                        viol.append(e.v)
                        continue
                    raise
                if idx % 8 == 0:
                    self.check_prefix(idx)
            self.check_v2()
        except Violation as e:
            viol.append(e.v)
        for k in [k for k in self.stats["probes"] if k.startswith("_")]:
            del self.stats["probes"][k]
        self.log.append(["np", _np_state_digest()])
        return viol


def run_record(record, want_record=True):
    run = Run(record)
    viol = run.execute()
    res = {
        "ok": not viol,
        "violations": viol,
        "log_digest": digest(run.log),
        "sched_digest": digest(run.kinds),
        "nontrivial": bool(run.fault_between),
        "stats": run.stats,
        "seed": record.get("seed"),
    }
    if viol or want_record:
        res["record"] = record
    return res


def run_seed(seed, tier, opts):
    record = generate_record(seed, tier, opts)
    return run_record(record, want_record=bool(opts.get("want_record")))
