"""Shrinking of rngsim records: drop steps, then simplify arguments.  Pure record manipulation."""
import copy

from simcore.ddmin import drop_chunks, smaller_ints, with_steps


def _simplify_step(st):
    """yields simpler variants of one step."""
    a = st.get("a")
    if st["op"] in ("call", "twin") and a:
        for key in ("n", "num_sum", "num"):
            if key in a and isinstance(a[key], int):
                for c in smaller_ints(a[key], 1):
                    s = copy.deepcopy(st)
                    s["a"][key] = c
                    yield s
        if "num_sums" in a and len(a["num_sums"]) > 1:
            for i in range(len(a["num_sums"])):
                s = copy.deepcopy(st)
                del s["a"]["num_sums"][i]
                yield s
        if "num_sums" in a:
            for i, n in enumerate(a["num_sums"]):
                lo = a["num_sums"][i - 1] + 1 if i else 1
                for c in smaller_ints(n, lo):
                    s = copy.deepcopy(st)
                    s["a"]["num_sums"][i] = c
                    yield s
        if "size" in a and a["size"] > 1:
            s = copy.deepcopy(st)
            s["a"]["size"] = 1
            yield s
        if a.get("kw"):
            s = copy.deepcopy(st)
            s["a"]["kw"] = False
            yield s
    if st["op"] == "boundary" and len(st["nums"]) > 1:
        nums = st["nums"]
        for sub in drop_chunks(nums):
            if not sub:
                continue
            s = copy.deepcopy(st)
            s["nums"] = sub
            if "n" in s["a"]:
                s["a"]["n"] = len(sub)
            else:
                s["a"]["ns"] = [len(sub)]
            yield s
    if st["op"] == "concurrent" and st.get("sched"):
        # fewer thread switches, fewer requests
        for ei, e in enumerate(st["sched"]):
            for sub in drop_chunks(e.get("switches", [])):
                s = copy.deepcopy(st)
                s["sched"][ei]["switches"] = sub
                yield s
    if st["op"] == "pollute" and st.get("n", 0) > 1:
        s = copy.deepcopy(st)
        s["n"] = 1
        yield s


def shrink_candidates(record):
    steps = record["steps"]
    for sub in drop_chunks(steps):
        yield with_steps(record, sub)
    for i, st in enumerate(steps):
        for s in _simplify_step(st):
            yield with_steps(record, steps[:i] + [s] + steps[i + 1:])
