"""Static description of the rngsim engine (C14).  No quara import."""

PROPERTY = "C14"
ENGINE = "rngsim"

TIERS = {
    "quick": {"runs": 1200, "faultfree_runs": 16, "determinism_runs": 24, "run_timeout": 300, "shrink_evals": 300},
    "thorough": {"runs": 40000, "faultfree_runs": 64, "determinism_runs": 96, "run_timeout": 600, "shrink_evals": 600},
}

# directed scenarios: deterministic histories that always place the rare boundary draws
DIRECTED = {
    "quick": [("boundary_sweep", 101), ("boundary_sweep", 102), ("boundary_sweep", 103), ("boundary_sweep", 104),
              ("ctor_reseed", 201), ("ctor_reseed", 202), ("keyword_calls", 301), ("bulk_distribution", 401),
              ("concurrent_callers", 501), ("concurrent_callers", 502), ("concurrent_callers", 503), ("concurrent_callers", 504)],
    "thorough": [("boundary_sweep", 100 + i) for i in range(1, 65)]
    + [("ctor_reseed", 200 + i) for i in range(1, 17)]
    + [("keyword_calls", 300 + i) for i in range(1, 9)]
    + [("bulk_distribution", 400 + i) for i in range(1, 17)]
    + [("concurrent_callers", 500 + i) for i in range(1, 65)],
}

RULE = (
    "One evaluation = one simulated call history (10-80 steps) over a pool of probability vectors, sample-size lists, "
    "1-3 shared numpy Generator(MT19937) objects, an Experiment and the four 1-qubit tomography objects; steps are "
    "generation calls through every entry point with the stream given as int seed / pool generator / None (alone, re-entrantly, or "
    "as 2-3 concurrent caller threads under a seeded switch list), interleaved "
    "with injected faults on the randomness seam (global-state pollution, re-seeding constructors, foreign draws on a shared "
    "generator, crafted MT19937 states whose next doubles sit on cumulative-sum boundaries). Everything is drawn from "
    "one PRNG seeded by seed_i. Distinct = digest of the (entry point, stream kind, fault kind) sequence; non-trivial = "
    "the history contains at least one fired pollution or boundary fault located between two generation calls whose "
    "outputs are compared against the fresh-world reference."
)

COMPONENTS = {
    "real": [
        "quara.qcircuit.data_generator (all functions)", "quara.utils.number_util.to_stream",
        "quara.qcircuit.experiment.Experiment", "quara.objects.multinomial_distribution.MultinomialDistribution",
        "StandardQst / StandardPovmt / StandardQpt / StandardQmpt generate_empi_dist(s)(_sequence)",
        "numpy.random legacy global state, numpy.random.Generator(MT19937), scipy.stats.multinomial",
    ],
    "stub": ["none for the streams: crafted streams are legal states of the real MT19937 bit generator (tempering inverted), not fakes",
             "caller threads of `concurrent` steps: real threads passing a baton at quara function entries (poolsim.simpool thread level), switch list seeded or recorded",
             "concurrent.futures.ThreadPoolExecutor -> SimThreadPoolExecutor (tasks run one at a time in a seeded order)"],
    "reference_model": "same call replayed in a fresh world (newly built objects, pristine or re-installed global state, shadow generator)",
}

ASSUMPTIONS = [
    "scipy.linalg.kron shim (numpy.kron) supplied by the harness sitecustomize; quara itself unmodified",
    "reference outputs are produced by the code under test in a fresh world (metamorphic oracle); validity (support, counts/n, prefix, cumulative consistency) and the Hoeffding bound are independent of the code",
    "1-qubit objects only; vectors of 2..16 outcomes; crafted streams limited to the first 312 doubles of an MT19937 state",
    "sampling over seeds: a clean batch is evidence, not proof",
]

FAULT_KINDS = [
    "np_global_draws", "np_global_reseed", "py_random_reseed", "ctor_with_seed_data", "reset_seed", "reset_seed_noarg", "foreign_draws_on_shared_generator",
    "crafted_boundary_stream", "crafted_extreme_stream", "in_place_operation_replacement", "reentrant_call", "concurrent_callers_preempted",
]

PROBES = [
    "seeded_call_right_after_ctor_reseed", "boundary_draw_exactly_on_partial_sum", "boundary_draw_on_sum_followed_by_zero_prob",
    "boundary_draw_at_or_above_float_total_below_one", "boundary_draw_zero_with_leading_zero_prob",
    "generator_shared_by_two_tomography_objects", "twin_call_decisive", "twin_call_trivial", "none_stream_after_reseed",
    "malformed_request_raised", "v2_checks", "V3_undecided_coincidence",
]
