# Harness-side compatibility shim (see DESIGN.md 2.1).
# quara/objects/composite_system.py does `from scipy.linalg import kron`; scipy >= 1.15 no
# longer exports it.  numpy.kron computes the same thing for the dense arrays quara passes.
# This file is put on PYTHONPATH by /verif/check so that every interpreter it starts gets it.
try:
    import scipy.linalg as _sl

    if not hasattr(_sl, "kron"):
        import numpy as _np

        _sl.kron = _np.kron
except Exception:  # pragma: no cover - scipy missing: quara cannot run at all
    pass
