"""Candidate generators for minimising explicit decision lists (no quara import)."""
import copy


def drop_chunks(items):
    """yields (description, shorter list) - halves first, then quarters, ..., then single items."""
    n = len(items)
    if n == 0:
        return
    size = n // 2
    seen = set()
    while size >= 1:
        for start in range(0, n, size):
            key = (start, min(n, start + size))
            if key in seen or key == (0, n):
                continue
            seen.add(key)
            yield items[: key[0]] + items[key[1]:]
        if size == 1:
            break
        size //= 2
    if n >= 1:
        for i in range(n - 1, -1, -1):
            if (i, i + 1) not in seen:
                yield items[:i] + items[i + 1:]


def with_steps(record, steps, key="steps"):
    r = copy.copy(record)
    r[key] = steps
    return r


def smaller_ints(n, floor=0):
    """candidate replacements for an integer argument, smallest first."""
    out = []
    for c in (floor, floor + 1, 2, 3, 5, 10, n // 2):
        if floor <= c < n and c not in out:
            out.append(c)
    return out
