"""Long-lived simulation worker: one interpreter, many simulated runs.

Protocol: one JSON request per stdin line, one JSON reply per line on a private copy of the
original stdout (fd 1 itself is pointed at /dev/null so quara's prints go nowhere).

  {"op":"run","seed":S,"tier":"quick","opts":{...}}  -> engine.run_seed(...)
  {"op":"replay","record":{...}}                     -> engine.run_record(...)
  {"op":"quit"}
"""
import faulthandler
import importlib
import json
import os
import sys
import time
import traceback


def main():
    engine_name = sys.argv[1]
    chan = os.fdopen(os.dup(1), "w", buffering=1)
    devnull = os.open(os.devnull, os.O_WRONLY)
    os.dup2(devnull, 1)
    sys.stdout = open(os.devnull, "w")
    faulthandler.enable(file=sys.stderr)

    from simcore import env

    env.assert_environment()
    env.make_worker_scratch(engine_name)
    engine = importlib.import_module(f"{engine_name}.engine")
    chan.write(json.dumps({"ready": True, "pid": os.getpid()}) + "\n")
    for line in sys.stdin:
        line = line.strip()
        if not line:
            continue
        req = json.loads(line)
        if req["op"] == "quit":
            break
        t0 = time.perf_counter()
        budget = float(req.get("timeout", 600))
        faulthandler.dump_traceback_later(budget, exit=True, file=sys.stderr)
        try:
            if req["op"] == "run":
                res = engine.run_seed(req["seed"], req.get("tier", "quick"), req.get("opts") or {})
            elif req["op"] == "replay":
                res = engine.run_record(req["record"])
            else:
                raise ValueError(req["op"])
            res["harness_error"] = None
        except BaseException as e:  # harness failure, never a violation
            res = {
                "ok": False,
                "violations": [],
                "harness_error": f"{type(e).__name__}: {e}\n{traceback.format_exc()[-3000:]}",
            }
        finally:
            faulthandler.cancel_dump_traceback_later()
        res["wall"] = round(time.perf_counter() - t0, 4)
        res["tag"] = req.get("tag")
        from simcore.util import dumps

        chan.write(dumps(res) + "\n")
    chan.close()


if __name__ == "__main__":
    main()
