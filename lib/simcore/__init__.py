"""Common machinery of the deterministic-simulation checks (DESIGN.md section 2)."""
