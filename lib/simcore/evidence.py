"""Evidence file writer (EVIDENCE.schema.json, level `exploration`).  Every number is measured
from the replies of this run's simulated executions."""
from collections import Counter


def _trim(o, depth=0):
    """samples are written out, but long literal arrays are abbreviated for readability."""
    if isinstance(o, dict):
        if "__nd" in o:
            return {"ndarray": o["__nd"], "shape": o["shape"], "approx": o.get("approx")}
        return {k: _trim(v, depth + 1) for k, v in list(o.items())[:60]}
    if isinstance(o, list):
        if len(o) > 40:
            return [_trim(x, depth + 1) for x in o[:40]] + [f"... {len(o) - 40} more"]
        return [_trim(x, depth + 1) for x in o]
    return o


def build(prop, engine, meta, tier, seed, tasks, results, wall, det, known_seen, violations,
          skipped, nworkers):
    faults = Counter()
    probes = Counter()
    oracle_checks = Counter()
    distinct = set()
    distinct_nontrivial = set()
    steps = 0
    sim_time = 0.0
    sets = {}
    samples = []
    by_tag = Counter()
    seeds_main = []
    n_eval = 0
    for t, r in zip(tasks, results):
        if r is None:
            continue
        n_eval += 1
        by_tag[t.get("tag")] += 1
        st = r.get("stats") or {}
        faults.update(st.get("faults") or {})
        probes.update(st.get("probes") or {})
        oracle_checks.update(st.get("oracle_checks") or {})
        for k, v in (st.get("sets") or {}).items():
            sets.setdefault(k, set()).update(v)
        steps += int(st.get("steps") or 0)
        sim_time += float(st.get("sim_time") or 0.0)
        d = r.get("sched_digest")
        if d:
            distinct.add(d)
            if r.get("nontrivial"):
                distinct_nontrivial.add(d)
        if t.get("tag") == "main":
            seeds_main.append(t["seed"])
            if r.get("record") is not None and len(samples) < 3:
                samples.append(_trim(r["record"]))
    for name in getattr(meta, "PROBES", []):
        probes.setdefault(name, 0)
    for name in getattr(meta, "FAULT_KINDS", []):
        faults.setdefault(name, 0)
    if not samples:
        samples = [{"note": "no record was requested in this run"}]
    ev = {
        "property_id": prop,
        "tier": tier,
        "seed": seed,
        "level": "exploration",
        "coverage": {
            "evaluations": n_eval,
            "distinct_nontrivial": len(distinct_nontrivial),
            "rule": meta.RULE,
            "samples": samples,
            "distinct_schedules_or_histories": len(distinct),
            "runs_by_kind": dict(by_tag),
            "skipped_by_wall_budget": skipped,
            "runs_per_hour": round(n_eval / max(wall, 1e-9) * 3600),
            "seeds": {"first": seeds_main[0] if seeds_main else None, "last": seeds_main[-1] if seeds_main else None,
                      "count": len(seeds_main), "derivation": "seed_i = sha256(VERIF_SEED|engine|i) >> 1"},
            "simulated_steps": steps,
            "sim_time_s": round(sim_time, 3),
            "fault_counts_fired": dict(sorted(faults.items())),
            "probes": dict(sorted(probes.items())),
            "probes_at_zero": sorted(k for k, v in probes.items() if v == 0),
            "oracle_checks": dict(sorted(oracle_checks.items())),
            "distinct_sets": {k: {"count": len(v), "sample": sorted(v)[:25]} for k, v in sorted(sets.items())},
            "components": meta.COMPONENTS,
            "determinism_selftest": det,
            "known_findings_seen": known_seen,
            "violations": violations,
            "harness_workers": nworkers,
        },
        "assumptions": meta.ASSUMPTIONS,
        "wall_s": round(wall, 2),
        "violations": len(violations),
    }
    return ev
