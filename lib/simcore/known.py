"""known_findings.json reader shared by the launcher and the engines (read-only)."""
import json
import os

_VERIF = os.path.dirname(os.path.dirname(os.path.dirname(os.path.abspath(__file__))))


def load(prop):
    path = os.path.join(_VERIF, "known_findings.json")
    if not os.path.exists(path):
        return []
    with open(path) as f:
        data = json.load(f)
    return [e for e in data.get("findings", []) if e.get("property") == prop and e.get("status") == "known"]


def known_signatures(prop):
    return [e.get("signature", {}) for e in load(prop) if e.get("signature")]


def matches(sigs, signature):
    return any(all(signature.get(k) == v for k, v in sig.items()) for sig in sigs)
