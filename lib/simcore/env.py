"""Process environment of every interpreter the harness starts (DESIGN.md 2.1, 2.2)."""
import os
import sys

VERIF_DIR = os.path.dirname(os.path.dirname(os.path.dirname(os.path.abspath(__file__))))
LIB_DIR = os.path.join(VERIF_DIR, "lib")
PYTHON = "/venv/bin/python"
GUARD = "QUARA_VERIF"


def repo_dir() -> str:
    return os.path.realpath(os.environ.get("VERIF_REPO", "/repo"))


def child_env(hashseed: str = "0") -> dict:
    env = dict(os.environ)
    env.update(
        PYTHONHASHSEED=str(hashseed),
        PYTHONDONTWRITEBYTECODE="1",
        PYTHONPATH=os.pathsep.join([os.path.join(LIB_DIR, "compat"), repo_dir(), LIB_DIR]),
        OMP_NUM_THREADS="1",
        OPENBLAS_NUM_THREADS="1",
        MKL_NUM_THREADS="1",
        NUMEXPR_NUM_THREADS="1",
        TQDM_DISABLE="1",
        MPLBACKEND="Agg",
        VERIF_REPO=repo_dir(),
        VERIF_BOOTED="1",
    )
    env[GUARD] = "1"
    env.pop("PYTHONSTARTUP", None)
    return env


def assert_environment():
    """called by workers before any simulated run."""
    import quara

    qdir = os.path.realpath(os.path.dirname(quara.__file__))
    want = os.path.join(repo_dir(), "quara")
    if qdir != want:
        raise RuntimeError(f"quara imported from {qdir}, expected {want}")
    try:
        import tqdm

        tqdm.tqdm.monitor_interval = 0
    except Exception:
        pass
    import warnings

    warnings.filterwarnings("ignore")
    import numpy as np

    np.seterr(all="ignore")


def _base_scratch() -> str:
    for d in ("/dev/shm", "/tmp"):
        if os.path.isdir(d) and os.access(d, os.W_OK):
            return d
    return "/tmp"


def scratch_root() -> str:
    """scratch directory of this process: workers get a private one (VERIF_SCRATCH) that is removed when they exit and,
    if they are killed, by the launcher."""
    d = os.environ.get("VERIF_SCRATCH")
    if d and os.path.isdir(d):
        return d
    return _base_scratch()


def make_worker_scratch(engine: str) -> str:
    import atexit
    import shutil
    import tempfile

    d = tempfile.mkdtemp(prefix=f"verif-{engine}-{os.getpid()}-", dir=_base_scratch())
    os.environ["VERIF_SCRATCH"] = d
    atexit.register(shutil.rmtree, d, True)
    return d


def remove_worker_scratch(engine: str, pid: int) -> None:
    import glob
    import shutil

    for d in glob.glob(os.path.join(_base_scratch(), f"verif-{engine}-{pid}-*")):
        shutil.rmtree(d, ignore_errors=True)
