"""Batch driver: worker interpreters, seeded batches, minimisation, replay, known findings,
evidence.  Runs in the launcher process; imports no quara."""
import json
import os
import queue
import select
import subprocess
import sys
import tempfile
import threading
import time

from simcore import env
from simcore.util import derive_seed, dumps


class HarnessError(Exception):
    pass


class Worker:
    def __init__(self, engine: str, hashseed: str = "0", idx: int = 0):
        self.engine = engine
        self.errlog = tempfile.NamedTemporaryFile(
            prefix=f"verif-{engine}-w{idx}-", suffix=".err", dir=env.scratch_root(), delete=False
        )
        self.proc = subprocess.Popen(
            [env.PYTHON, "-m", "simcore.worker", engine],
            stdin=subprocess.PIPE,
            stdout=subprocess.PIPE,
            stderr=self.errlog,
            env=env.child_env(hashseed),
            cwd=env._base_scratch(),
            text=True,
            bufsize=1,
        )
        self._buf = ""
        msg = self._read(180)
        if not msg or not msg.get("ready"):
            raise HarnessError(f"worker failed to start: {self.stderr_tail()}")

    def stderr_tail(self, n=3000):
        try:
            with open(self.errlog.name) as f:
                return f.read()[-n:]
        except Exception:
            return ""

    def _read(self, timeout):
        deadline = time.monotonic() + timeout
        fd = self.proc.stdout.fileno()
        while True:
            if "\n" in self._buf:
                line, self._buf = self._buf.split("\n", 1)
                if line.strip():
                    return json.loads(line)
                continue
            left = deadline - time.monotonic()
            if left <= 0:
                return None
            r, _, _ = select.select([fd], [], [], min(left, 5.0))
            if r:
                chunk = os.read(fd, 1 << 16)
                if not chunk:
                    return None
                self._buf += chunk.decode()
            elif self.proc.poll() is not None:
                return None

    def request(self, req: dict, timeout: float = 600.0) -> dict:
        req = dict(req)
        req["timeout"] = timeout
        try:
            self.proc.stdin.write(dumps(req) + "\n")
            self.proc.stdin.flush()
        except BrokenPipeError:
            raise HarnessError(f"worker died: {self.stderr_tail()}")
        res = self._read(timeout + 30)
        if res is None:
            tail = self.stderr_tail()
            self.kill()
            raise HarnessError(f"worker timeout/death on {str(req)[:300]}: {tail}")
        return res

    def kill(self):
        try:
            self.proc.kill()
            self.proc.wait(10)
        except Exception:
            pass
        env.remove_worker_scratch(self.engine, self.proc.pid)
        self.close_log()

    def close_log(self):
        try:
            self.errlog.close()
            os.unlink(self.errlog.name)
        except Exception:
            pass

    def quit(self):
        try:
            self.proc.stdin.write(json.dumps({"op": "quit"}) + "\n")
            self.proc.stdin.flush()
            self.proc.wait(20)
        except Exception:
            self.kill()
        env.remove_worker_scratch(self.engine, self.proc.pid)
        self.close_log()


def run_tasks(engine: str, tasks: list, nworkers: int, timeout: float, hashseed: str = "0",
              progress=None, wall_budget: float = None):
    """runs request dicts on a pool of workers; returns replies in task order.  Tasks are
    independent by construction, so the reply to a task does not depend on which worker ran it
    (that is what the determinism self-test checks).  With wall_budget, tasks not yet started
    when the budget is spent are skipped (reply None)."""
    nworkers = max(1, min(nworkers, len(tasks)))
    q = queue.Queue()
    for i, t in enumerate(tasks):
        q.put((i, t))
    results = [None] * len(tasks)
    errors = []
    t_start = time.monotonic()

    def loop(idx):
        try:
            w = Worker(engine, hashseed, idx)
        except Exception as e:
            errors.append(str(e))
            return
        try:
            while True:
                try:
                    i, t = q.get_nowait()
                except queue.Empty:
                    break
                if wall_budget is not None and time.monotonic() - t_start > wall_budget:
                    continue
                results[i] = w.request(t, timeout)
                if progress:
                    progress(i, results[i])
        except HarnessError as e:
            errors.append(str(e))
        finally:
            w.quit()

    threads = [threading.Thread(target=loop, args=(k,), daemon=True) for k in range(nworkers)]
    for th in threads:
        th.start()
    for th in threads:
        th.join()
    if errors:
        raise HarnessError(errors[0])
    return results


def make_seeds(verif_seed: int, engine: str, n: int, start: int = 0):
    return [derive_seed(verif_seed, engine, i) for i in range(start, start + n)]


# ---------------------------------------------------------------------------
# minimisation: greedy fixpoint over engine-proposed candidates (DESIGN 2.3)
# ---------------------------------------------------------------------------
def same_failure(res: dict, oracle: str) -> bool:
    if res.get("harness_error"):
        return False
    return any(v["oracle"] == oracle for v in res.get("violations", []))


def minimise(engine_mod, worker: Worker, record: dict, oracle: str, max_evals: int = 400,
             timeout: float = 300.0):
    """engine_mod.shrink_candidates(record) yields smaller records, most aggressive first.  A
    candidate is kept only if the *same oracle* still fails."""
    evals = 0
    best = record
    improved = True
    while improved and evals < max_evals:
        improved = False
        for cand in engine_mod.shrink_candidates(best):
            if evals >= max_evals:
                break
            evals += 1
            try:
                res = worker.request({"op": "replay", "record": cand}, timeout)
            except HarnessError:
                raise
            if same_failure(res, oracle):
                best = res.get("record") or cand
                improved = True
                break
    return best, evals


def replay_fresh(engine: str, record: dict, timeout: float = 600.0, hashseed: str = "0") -> dict:
    w = Worker(engine, hashseed, 99)
    try:
        return w.request({"op": "replay", "record": record}, timeout)
    finally:
        w.quit()


# ---------------------------------------------------------------------------
# known findings
# ---------------------------------------------------------------------------
def load_known(prop: str):
    path = os.path.join(env.VERIF_DIR, "known_findings.json")
    if not os.path.exists(path):
        return []
    with open(path) as f:
        data = json.load(f)
    return [e for e in data.get("findings", []) if e.get("property") == prop and e.get("status") == "known"]


def match_known(known: list, signature: dict):
    for e in known:
        sig = e.get("signature", {})
        if sig and all(signature.get(k) == v for k, v in sig.items()):
            return e
    return None
