"""PRNG derivation, canonical digests, JSON helpers.  No quara import here."""
import hashlib
import json
import random
import struct

import numpy as np


def derive_seed(verif_seed: int, engine: str, index: int) -> int:
    """seed_i = H(VERIF_SEED, engine, i), 63 bits (fits a JSON integer everywhere)."""
    h = hashlib.sha256(f"{verif_seed}|{engine}|{index}".encode()).digest()
    return int.from_bytes(h[:8], "big") >> 1


def rng_for(seed: int, label: str = "") -> random.Random:
    """independent sub-stream of one run seed (generator / scheduler / faults ...)."""
    h = hashlib.sha256(f"{seed}|{label}".encode()).digest()
    return random.Random(int.from_bytes(h[:16], "big"))


class Digest:
    """canonical, address-free digest of nested python / numpy values."""

    def __init__(self):
        self._h = hashlib.sha256()

    def add(self, obj):
        self._add(obj)
        return self

    def _add(self, o):
        h = self._h
        if o is None:
            h.update(b"N")
        elif isinstance(o, (bool, np.bool_)):
            h.update(b"T" if o else b"F")
        elif isinstance(o, (int, np.integer)):
            h.update(b"i" + str(int(o)).encode())
        elif isinstance(o, (float, np.floating)):
            h.update(b"f" + struct.pack("<d", float(o)))
        elif isinstance(o, (complex, np.complexfloating)):
            h.update(b"c" + struct.pack("<dd", complex(o).real, complex(o).imag))
        elif isinstance(o, str):
            h.update(b"s" + str(len(o)).encode() + b":" + o.encode())
        elif isinstance(o, bytes):
            h.update(b"b" + str(len(o)).encode() + b":" + o)
        elif isinstance(o, np.ndarray):
            a = np.ascontiguousarray(o)
            if a.dtype == object:
                h.update(b"O" + str(a.shape).encode())
                for x in a.flat:
                    self._add(x)
            else:
                h.update(b"A" + str(a.dtype).encode() + str(a.shape).encode())
                h.update(a.tobytes())
        elif isinstance(o, (list, tuple)):
            h.update(b"[" + str(len(o)).encode())
            for x in o:
                self._add(x)
            h.update(b"]")
        elif isinstance(o, dict):
            h.update(b"{" + str(len(o)).encode())
            for k in sorted(o, key=lambda z: str(z)):
                self._add(str(k))
                self._add(o[k])
            h.update(b"}")
        else:
            raise TypeError(f"Digest: unsupported type {type(o)}")

    def hex(self) -> str:
        return self._h.hexdigest()[:24]


def digest(obj) -> str:
    return Digest().add(obj).hex()


# ---------------------------------------------------------------------------
# JSON round trip that is exact for floats and arrays (replay files must be bit exact)
# ---------------------------------------------------------------------------
def to_jsonable(o):
    if o is None or isinstance(o, (bool, str)):
        return o
    if isinstance(o, (int, np.integer)) and not isinstance(o, (bool, np.bool_)):
        return int(o)
    if isinstance(o, (np.bool_,)):
        return bool(o)
    if isinstance(o, (float, np.floating)):
        return {"__f": float(o).hex()}
    if isinstance(o, (complex, np.complexfloating)):
        c = complex(o)
        return {"__c": [c.real.hex(), c.imag.hex()]}
    if isinstance(o, np.ndarray):
        a = np.ascontiguousarray(o)
        return {
            "__nd": str(a.dtype),
            "shape": list(a.shape),
            "hex": a.tobytes().hex(),
            "approx": np.asarray(a).astype(complex if np.iscomplexobj(a) else float).round(6).tolist()
            if a.size <= 64 and a.dtype != object
            else None,
        } if a.dtype != object else [to_jsonable(x) for x in a.tolist()]
    if isinstance(o, (list, tuple)):
        return [to_jsonable(x) for x in o]
    if isinstance(o, dict):
        return {str(k): to_jsonable(v) for k, v in o.items()}
    raise TypeError(f"to_jsonable: unsupported type {type(o)}")


def _approx_clean(x):
    # complex values are not JSON serialisable; "approx" is only for human readers
    if isinstance(x, list):
        return [_approx_clean(y) for y in x]
    if isinstance(x, complex):
        return [x.real, x.imag]
    return x


def from_jsonable(o):
    if isinstance(o, dict):
        if "__f" in o:
            return float.fromhex(o["__f"])
        if "__c" in o:
            return complex(float.fromhex(o["__c"][0]), float.fromhex(o["__c"][1]))
        if "__nd" in o:
            a = np.frombuffer(bytes.fromhex(o["hex"]), dtype=np.dtype(o["__nd"]))
            return a.reshape(o["shape"]).copy()
        return {k: from_jsonable(v) for k, v in o.items()}
    if isinstance(o, list):
        return [from_jsonable(x) for x in o]
    return o


class _Enc(json.JSONEncoder):
    def default(self, o):
        if isinstance(o, complex):
            return [o.real, o.imag]
        if isinstance(o, (np.integer,)):
            return int(o)
        if isinstance(o, (np.floating,)):
            return float(o)
        if isinstance(o, np.ndarray):
            return o.tolist()
        if isinstance(o, (np.bool_,)):
            return bool(o)
        return super().default(o)


def dumps(o, **kw) -> str:
    return json.dumps(o, cls=_Enc, **kw)
