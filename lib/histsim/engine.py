"""histsim: interleaved operation histories on a shared pool of quara objects, each step compared with the same
step evaluated in a fresh world (C13, DESIGN.md section 4)."""
import copy
import importlib
import math

import numpy as np
from scipy import sparse

from simcore.util import digest, from_jsonable, rng_for, to_jsonable
from simcore.known import known_signatures, matches

from histsim import ops, world as W

from quara.objects import operators
from quara.objects.qoperation import QOperation
from quara.objects.qoperation_typical import generate_qoperation
from quara.settings import Settings

DEFAULT_ATOL = 1e-13
MAX_POOL = 60
QOP_KINDS = ("state", "povm", "gate", "mprocess")


class Violation(Exception):
    def __init__(self, oracle, what, detail, signature):
        super().__init__(what)
        self.v = {"oracle": oracle, "what": what, "detail": detail, "signature": dict(signature, engine="histsim", oracle=oracle)}


# ---------------------------------------------------------------------------------------------
# pool generation
# ---------------------------------------------------------------------------------------------
def _flags(rng, physical_required=False, para=None):
    return {"is_physicality_required": bool(physical_required), "is_estimation_object": rng.random() < 0.8, "on_para_eq_constraint": (rng.random() < 0.5) if para is None else para,
            "on_algo_eq_constraint": rng.random() < 0.8, "on_algo_ineq_constraint": rng.random() < 0.8, "mode_proj_order": rng.choice(["eq_ineq", "ineq_eq"]),
            "eps_proj_physical": rng.choice([None, 1e-9, 1e-5]), "eps_truncate_imaginary_part": rng.choice([None, None, 1e-9])}


BIG_SYSTEMS = {
    "qutrit": {"mode": "qutrit", "num": 1, "ids": [0], "dim": 3, "state": ["01z0", "01x0", "12y1", "0_1_2_superposition"], "povm": ["01x3", "z3", "z2", "12y3"], "gate": ["01x90", "12z90", "02y90", "identity"]},
    "2qubit": {"mode": "qubit", "num": 2, "ids": [0, 1], "dim": 4, "state": ["z0_z0", "bell_phi_plus", "x0_y1", "bell_psi_minus"], "povm": ["x_x", "bell", "z_x", "y_z"], "gate": ["cx", "cz", "swap", "zx90"]},
}


def gen_big_pool(rng, which):
    """pool whose main system is a qutrit or two qubits: catalogue objects, perturbed non-physical variants, no tomography."""
    spec = BIG_SYSTEMS[which]
    c = W.build_csys(spec)
    pool = [{"kind": "csys", "mode": spec["mode"], "num": spec["num"], "ids": spec["ids"], "dim": spec["dim"]}, {"kind": "csys", "mode": "qubit", "num": 1, "ids": [7], "dim": 2}]
    c1 = W.build_csys(pool[1])

    def typical(kind, name, csys, cs):
        kw = {"ids": spec["ids"]} if (kind == "gate" and which == "2qubit" and name in ("cx", "zx90")) else {}
        q = generate_qoperation(kind, name, cs, **kw)
        r = W.qop_recipe(q, csys, DEFAULT_ATOL)
        r["flags"] = _flags(rng, physical_required=rng.random() < 0.5)
        r["name"] = name
        return r

    for kind in ("state", "povm", "gate"):
        for n in rng.sample(spec[kind], 2):
            pool.append(typical(kind, n, 0, c))
        # a perturbed, non-physical variant of the first one
        base = copy.deepcopy(pool[-2])
        key = {"state": "vec", "povm": "vecs", "gate": "hs"}[kind]
        if kind == "povm":
            base[key] = [np.array(v) + rng.choice([0.02, 0.2]) * np.array([rng.gauss(0, 1) for _ in range(len(v))]) for v in base[key]]
        else:
            arr = np.array(base[key])
            base[key] = arr + rng.choice([0.02, 0.2]) * np.array([rng.gauss(0, 1) for _ in range(arr.size)]).reshape(arr.shape)
        base["flags"] = _flags(rng, physical_required=False)
        base.pop("name", None)
        pool.append(base)
    pool.append(typical("state", rng.choice(["z0", "a"]), 1, c1))
    pool.append(typical("povm", rng.choice(["x", "z"]), 1, c1))
    pool.append(typical("gate", rng.choice(["x90", "hadamard"]), 1, c1))
    return pool, []


def gen_pool(rng, tier, opts):
    """list of recipes; index = pool id.  Typical objects are stored by their literal arrays (taken from quara's catalogue)."""
    big = rng.random() < (0.3 if tier == "thorough" else 0.15)
    if opts.get("big"):
        big = True
    if big and not opts.get("fault_free_small"):
        return gen_big_pool(rng, rng.choice(["qutrit", "2qubit"]))
    c = W.build_csys({"mode": "qubit", "num": 1, "ids": [0]})
    pool = [{"kind": "csys", "mode": "qubit", "num": 1, "ids": [0]}, {"kind": "csys", "mode": "qubit", "num": 1, "ids": [1]}]

    def typical(kind, name, csys=0, para=None):
        q = generate_qoperation(kind, name, c)
        r = W.qop_recipe(q, csys, DEFAULT_ATOL)
        r["flags"] = _flags(rng, physical_required=rng.random() < 0.5, para=para)
        r["name"] = name
        return r

    for n in rng.sample(["x0", "y0", "z0", "z1", "a", "x1"], 3):
        pool.append(typical("state", n))
    for _ in range(rng.randint(1, 2)):
        ph = rng.random() < 0.5
        pool.append({"kind": "state", "csys": 0, "vec": ops.rand_state_vec(rng, ph), "flags": _flags(rng), "born_atol": DEFAULT_ATOL})
    for n in ["x", "y", "z"]:
        pool.append(typical("povm", n))
    pool.append({"kind": "povm", "csys": 0, "vecs": ops.rand_povm_vecs(rng, rng.random() < 0.5, rng.choice([2, 2, 3])), "flags": _flags(rng), "born_atol": DEFAULT_ATOL})
    for n in rng.sample(["identity", "x90", "hadamard", "z90", "phase", "y90"], 2):
        pool.append(typical("gate", n))
    pool.append({"kind": "gate", "csys": 0, "hs": ops.rand_gate_hs(rng, rng.random() < 0.5), "flags": _flags(rng), "born_atol": DEFAULT_ATOL})
    pool.append(typical("mprocess", rng.choice(["x-type1", "z-type1", "z-type2", "y-type1"])))
    hss = ops.rand_mprocess_hss(rng, rng.random() < 0.5)
    pool.append({"kind": "mprocess", "csys": 0, "hss": hss, "shape": [len(hss)], "flags": _flags(rng), "born_atol": DEFAULT_ATOL})
    # a measurement process in sampling mode (random by design): only looked at, never composed
    smp = typical("mprocess", rng.choice(["x-type1", "z-type1"]))
    smp.update(mode_sampling=True, sampling_seed=rng.randrange(100), sampling=True)
    smp.pop("name", None)
    pool.append(smp)
    # objects on the second system (tensor products)
    pool.append(typical("state", rng.choice(["z0", "a"]), csys=1))
    pool.append(typical("povm", rng.choice(["x", "z"]), csys=1))
    pool.append(typical("gate", rng.choice(["x90", "hadamard"]), csys=1))
    pool.append(typical("mprocess", rng.choice(["x-type1", "z-type2"]), csys=1))
    # tomography objects over pool testers, datasets, loss / algorithm / estimator objects
    povm_ids = [i for i, r in enumerate(pool) if r["kind"] == "povm" and r["csys"] == 0 and r.get("name") in ("x", "y", "z")]
    state_ids = [i for i, r in enumerate(pool) if r["kind"] == "state" and r["csys"] == 0 and r.get("name")]
    while len(state_ids) < 4:
        name = [n for n in ["x0", "y0", "z0", "z1"] if n not in [pool[i].get("name") for i in state_ids]][0]
        pool.append(typical("state", name))
        state_ids.append(len(pool) - 1)
    tomos = []
    qst_para = rng.random() < 0.5
    n_qst = 0
    for ttype in ["qst", "qst", "povmt"] + (["qpt"] if rng.random() < 0.4 else []) + (["qmpt"] if rng.random() < 0.5 else []):
        testers = povm_ids if ttype == "qst" else (state_ids[:4] if ttype == "povmt" else state_ids[:4] + povm_ids)
        para = rng.random() < 0.5
        if ttype == "qst":
            # two state tomographies of the same shape (same parametrisation) whose testers come in a different order:
            # an object that confuses them gives a permuted answer instead of an error
            n_qst += 1
            if n_qst == 2:
                testers = list(reversed(testers)) if rng.random() < 0.7 else testers[1:] + testers[:1]
            para = qst_para if rng.random() < 0.8 else para
        rec = {"kind": "tomo", "type": ttype, "testers": list(testers), "para": para, "num_outcomes": 2, "eps_proj_physical": rng.choice([None, 1e-9, 1e-4]),
               "eps_truncate_imaginary_part": None, "born_atol": DEFAULT_ATOL}
        pool.append(rec)
        tomos.append(len(pool) - 1)
    for shape in ([2, 2], rng.choice([[2, 3], [2, 2, 2], [3, 2]])):
        n = 1
        for d in shape:
            n *= d
        w = [rng.random() if rng.random() < 0.8 else 0.0 for _ in range(n)]
        if sum(w) == 0:
            w[0] = 1.0
        eps_zero = rng.choice([None, None, 1e-12])
        if eps_zero is not None and n > 2:
            w[rng.randrange(n)] = rng.choice([1e-10, 3e-9]) * sum(w)  # between the custom and the default zero threshold
        pool.append({"kind": "mdist", "ps": np.array([x / sum(w) for x in w]), "shape": shape, "eps_zero": eps_zero})
    # matrix bases that are orthonormal only up to a small defect (their predicates depend on the tolerance in force)
    s2 = 1 / math.sqrt(2)
    pauli = [s2 * np.array(m, dtype=complex) for m in ([[1, 0], [0, 1]], [[0, 1], [1, 0]], [[0, -1j], [1j, 0]], [[1, 0], [0, -1]])]
    for _ in range(2):
        defect = rng.choice([0.0, 1e-10, 1e-7, 1e-4])
        mats = [m.copy() for m in pauli]
        mats[1] = mats[1] + defect * mats[3]
        if rng.random() < 0.3:
            mats[2] = mats[2] * (1 + rng.choice([1e-10, 1e-5]))
        pool.append({"kind": "basis", "mats": mats, "sparse": rng.random() < 0.4, "born_atol": DEFAULT_ATOL})
        pool.append({"kind": "esys", "basis": len(pool) - 1, "name": 40 + len(pool), "born_atol": DEFAULT_ATOL})
    some_states = [i for i, r in enumerate(pool) if r["kind"] == "state" and r["csys"] == 0][:2]
    some_gates = [i for i, r in enumerate(pool) if r["kind"] == "gate" and r["csys"] == 0][:1]
    pool.append({"kind": "setq", "states": some_states, "povms": None, "gates": None, "mprocesses": None})
    pool.append({"kind": "setq", "states": None, "povms": None, "gates": some_gates, "mprocesses": None})
    pool.append({"kind": "setq", "states": some_states[:1], "povms": [], "gates": None, "mprocesses": None})
    for cls in ["se", "re", "fast_se", "fast_re"]:
        pool.append({"kind": "loss", "cls": cls})
    for cls in ["pgdb", "pgdb", "pgdm", "pfista"]:
        pool.append({"kind": "algo", "cls": cls})
    for cls in ["linear", "plinear", "lossmin"]:
        pool.append({"kind": "estimator", "cls": cls, "proj_order": rng.choice(["eq_ineq", "ineq_eq"])})
    return pool, tomos


# ---------------------------------------------------------------------------------------------
# the run
# ---------------------------------------------------------------------------------------------
class Run:
    def __init__(self, record):
        W.reset_containers()
        self.record = record
        self.pool = from_jsonable(record["pool"])
        self.pool0 = list(self.pool)  # recipes as first created: what a replay starts from (in-place mutators update self.pool only)
        self.steps = from_jsonable(record["steps"])
        self.stats = {"faults": {}, "probes": {}, "oracle_checks": {}, "steps": 0}
        self.log = []
        self.kinds = []
        self.live = {}
        self.atol = DEFAULT_ATOL
        self.flip_depth = 0
        self.deleted_since = {}  # csys id -> set of tables deleted and not yet rebuilt
        self.nontrivial = False
        self.fault_pending = False
        self.loss_history = {}  # loss id -> list of (mode_weight, dataset id)
        self.known = known_signatures("C13")
        self.generating = False
        self._canary0 = None
        self._shell = None  # the previous temporary tomography object of the live world (see tomo_for)
        self.last_result_id = None

    def bump(self, table, key, n=1):
        d = self.stats[table]
        d[key] = d.get(key, 0) + n

    # --- building --------------------------------------------------------------------------------
    def build_entry(self, i, fresh_cache=None, live=True):
        """builds pool entry i (and what it depends on).  live=True: into self.live.  Otherwise into fresh_cache."""
        cache = self.live if live else fresh_cache
        if i in cache:
            return cache[i]
        r = self.pool[i]
        k = r["kind"]
        saved = Settings.get_atol()
        try:
            if k == "csys":
                obj = W.build_csys(r)
            elif k in QOP_KINDS:
                c = self.build_entry(r["csys"], fresh_cache, live)
                Settings.set_atol(r.get("born_atol", DEFAULT_ATOL))
                obj = W.build_qop(r, c)
            elif k == "tomo":
                testers = [self.build_entry(t, fresh_cache, live) for t in r["testers"]]
                Settings.set_atol(r.get("born_atol", DEFAULT_ATOL))
                obj = W.build_tomo(r, testers)
            elif k == "loss":
                obj = W.build_loss(r)
            elif k == "algo":
                obj = W.build_algo(r)
            elif k == "estimator":
                obj = W.build_estimator(r)
            elif k == "dataset":
                obj = [(int(n), np.array(p)) for n, p in r["data"]]
            elif k == "var":
                obj = np.array(r["value"])
            elif k == "loss_option":
                obj = W.build_loss_option(r["cls"], r["spec"])
            elif k == "algo_option":
                obj = W.build_algo_option(r["cls"], r["spec"])
            elif k == "mdist":
                from quara.objects.multinomial_distribution import MultinomialDistribution

                obj = MultinomialDistribution(np.array(r["ps"], dtype=np.float64), tuple(r["shape"]), eps_zero=r.get("eps_zero"))
            elif k == "oplist":
                obj = [self.build_entry(i, fresh_cache, live) for i in r["ids"]]
            elif k == "setq":
                from quara.objects.qoperations import SetQOperations

                kw = {key: [self.build_entry(i, fresh_cache, live) for i in r[key]] for key in ("states", "povms", "gates", "mprocesses") if r.get(key) is not None}
                obj = SetQOperations(**kw)  # list arguments that the recipe omits are really omitted (defaults)
            elif k == "basis":
                from quara.objects.matrix_basis import MatrixBasis, SparseMatrixBasis

                mats = [np.array(m, dtype=np.complex128) for m in r["mats"]]
                Settings.set_atol(r.get("born_atol", DEFAULT_ATOL))
                obj = SparseMatrixBasis(mats) if r.get("sparse") else MatrixBasis(mats)
            elif k == "esys":
                from quara.objects.elemental_system import ElementalSystem

                b = self.build_entry(r["basis"], fresh_cache, live)
                Settings.set_atol(r.get("born_atol", DEFAULT_ATOL))
                obj = ElementalSystem(r["name"], b)
            else:
                raise ValueError(k)
        finally:
            Settings.set_atol(saved)
        cache[i] = obj
        return obj

    def snapshot_all(self):
        snap = {}
        for i, obj in self.live.items():
            k = self.pool[i]["kind"]
            if k in QOP_KINDS:
                snap[i] = digest(W.snapshot_qop(obj))
            elif k == "csys":
                snap[i] = digest(W.snapshot_csys(obj))
            elif k == "tomo":
                snap[i] = digest(W.snapshot_tomo(obj))
            elif k == "dataset":
                snap[i] = digest(W.snapshot_dataset(obj))
            elif k == "var":
                snap[i] = digest(obj)
            elif k == "mdist":
                snap[i] = digest([np.array(obj.ps), list(obj.shape)])
            elif k == "basis":
                snap[i] = digest([np.asarray(b.toarray() if sparse.issparse(b) else b) for b in obj.basis])
            elif k == "setq":
                snap[i] = digest(_setq_view(obj))
            elif k == "oplist":
                snap[i] = digest([W.snapshot_qop(x) for x in obj])
        return snap

    def add_to_pool(self, recipe, live_obj):
        if len(self.pool) >= MAX_POOL:
            return None
        self.pool.append(recipe)
        self.pool0.append(recipe)
        i = len(self.pool) - 1
        self.live[i] = live_obj
        return i

    # --- one step ----------------------------------------------------------------------------------
    def apply(self, st, cache, live):
        """performs the operation of step st on the world `cache`; returns the raw result."""
        if live:
            def live_get_ephemeral(i):
                return self.build_entry(i, None, True)

            get = live_get_ephemeral
        else:
            get = lambda i: self.build_entry(i, cache, False)
        op = st["op"]
        if op == "derive":
            src = get(st["on"])
            how = st["how"]
            if how == "generate_from_var":
                return src.generate_from_var(src.to_var())
            if how == "generate_from_var_flags":
                return src.generate_from_var(src.to_var(), is_physicality_required=False, on_para_eq_constraint=st.get("para", False))
            if how == "tomo_convert":
                qt = get(st["tomo"])
                return qt.convert_var_to_qoperation(src.to_var())
            if how == "copy":
                return src.copy()
            raise ValueError(how)
        if op == "chain":
            # sub-steps run back to back on the live world's shared objects (temporary objects of one sub-step are dropped
            # before the next one starts, so a new temporary may live at the same address); in the fresh world every
            # sub-step gets brand-new objects of its own
            return [self.apply(sub, None, True) if live else self.apply(sub, {}, False) for sub in st["steps"]]
        if op == "catalogue":
            names = getattr(importlib.import_module(f"quara.objects.{st['module']}"), st["name"])()
            out = list(names)
            if st.get("scribble") and isinstance(names, list):
                names.append("edited-by-the-caller")  # the caller edits the list it was handed
                names.reverse()
            return out
        if op == "m" and st["name"] == "generate_mprocess":
            obj = get(st["on"])
            pss = None if st.get("post") is None else [get(i) for i in st["post"]]
            return obj.generate_mprocess(mode_backaction=st["mode"], post_selected_states=pss) if pss is not None else obj.generate_mprocess(mode_backaction=st["mode"])
        if op == "m" and st["name"] == "__str__":
            return str(get(st["on"]))
        if op == "m":
            obj = get(st["on"])
            if st.get("basis_arg"):
                import quara.objects.matrix_basis as mb

                c = obj.composite_system
                b = {"own": c.basis, "comp": c.comp_basis, "pauli": (mb.get_normalized_pauli_basis if c.dim == 2 else mb.get_normalized_gell_mann_basis)}[st["basis_arg"]]()
                return obj.convert_basis(b)
            return getattr(obj, st["name"])(*st.get("args", []), **st.get("kwargs", {}))
        if op == "csys_q":
            c = get(st["csys"])
            if st["name"] == "comp_basis":
                return c.comp_basis(mode=st["mode"])
            if st["name"] == "basis":
                return c.basis()
            if st["name"] == "get_basis":
                return c.get_basis(st["i"])
            return getattr(c, st["name"])
        if op == "with_var":
            obj = get(st["on"])
            c = obj.composite_system
            var = np.array(st["var"])
            keep = var.copy()
            name, para = st["name"], st["para"]
            if name in ("calc_proj_eq_constraint_with_var", "calc_proj_ineq_constraint_with_var"):
                out = getattr(type(obj), name)(c, var, para) if st.get("via") == "static" else getattr(obj, name)(c, var, on_para_eq_constraint=para)
            elif name == "calc_proj_physical_with_var":
                out = obj.calc_proj_physical_with_var(var, on_para_eq_constraint=para, max_iteration=st.get("max_iteration", 200))
            elif name.startswith("func_"):
                if name == "func_calc_proj_physical_with_var":
                    f = obj.func_calc_proj_physical_with_var(on_para_eq_constraint=para, mode_proj_order=st.get("proj_order", "eq_ineq"), max_iteration=st.get("max_iteration", 200))
                else:
                    f = getattr(obj, name)(para)
                out = f(var)
            elif name == "convert_var_to_stacked_vector":
                out = obj.convert_var_to_stacked_vector(c, var, on_para_eq_constraint=para)
            elif name == "convert_stacked_vector_to_var":
                out = obj.convert_stacked_vector_to_var(c, var, on_para_eq_constraint=para)
            elif name == "generate_from_var":
                out = obj.generate_from_var(var, is_physicality_required=False, on_para_eq_constraint=para)
            else:
                raise ValueError(name)
            return {"out": out, "arg_after": var, "arg_before": keep}
        if op == "modfunc":
            mod = importlib.import_module(f"quara.objects.{st['module']}")
            c = get(st["csys"])
            arr = from_jsonable(st["arr"]) if isinstance(st["arr"], dict) else st["arr"]
            arr = [np.array(a) for a in arr] if isinstance(arr, list) and st.get("is_list") else np.array(arr)
            keep = copy.deepcopy(arr)
            out = getattr(mod, st["name"])(c, arr)
            return {"out": out, "arg_after": arr, "arg_before": keep}
        if op == "util":
            import quara.utils.matrix_util as mu

            arr = np.array(st["arr"])
            keep = arr.copy()
            name = st["name"]
            if name in ("truncate_and_normalize", "truncate_imaginary_part", "truncate_computational_fluctuation", "replace_prob_dist"):
                out = getattr(mu, name)(arr, st["eps"]) if st.get("eps") is not None else getattr(mu, name)(arr)
            elif name == "truncate_hs":
                out = mu.truncate_hs(arr, eps_truncate_imaginary_part=st.get("eps"))
            elif name in ("is_real", "is_symmetric", "is_unitary", "is_hermitian", "is_positive_semidefinite", "calc_left_inv", "flatten"):
                out = getattr(mu, name)(arr)
            elif name == "calc_covariance_mat":
                out = mu.calc_covariance_mat(arr, st["n"])
            else:
                raise ValueError(name)
            return {"out": out, "arg_after": arr, "arg_before": keep}
        if op == "compose":
            if st.get("as_list") is not None:
                lst = get(st["as_list"])  # one list object handed over as the only argument, and kept by the caller
                return operators.compose_qoperations(lst)
            return operators.compose_qoperations(*[get(i) for i in st["ids"]])
        if op == "tensor":
            if st.get("as_list") is not None:
                return operators.tensor_product(get(st["as_list"]))  # the caller's own list object
            return operators.tensor_product(*[get(i) for i in st["ids"]])
        if op == "csys_new":
            from quara.objects.composite_system import CompositeSystem

            lst = [get(i) for i in st["ids"]]  # the caller's list of elemental systems, in the caller's order
            keep = list(lst)
            c = CompositeSystem(lst)
            return {"out": {"names": [e.name for e in c.elemental_systems], "dim": int(c.dim)},
                    "list_unchanged": len(lst) == len(keep) and all(x is y for x, y in zip(lst, keep))}
        if op == "arith":
            a = get(st["ids"][0])
            how = st["how"]
            if how in ("add", "sub"):
                b = get(st["ids"][1])
                return a + b if how == "add" else a - b
            k = st["k"]
            return a * k if how == "mul" else (k * a if how == "rmul" else a / k)
        if op == "basis_fn":
            import quara.objects.matrix_basis as mb

            name = st["name"]
            if name == "convert_vec":
                vec = np.array(st["vec"])
                keep = vec.copy()
                fb, tb = (getattr(mb, n)() for n in st["bases"])
                if st.get("same_object"):
                    tb = fb
                out = mb.convert_vec(vec, fb, tb)
                res = {"out": np.array(out), "arg_after": vec, "arg_before": keep}
                if st.get("scribble"):
                    _scribble(out)  # the caller edits the vector it was handed: its own argument must not notice
                return res
            if name in ("calc_matrix_expansion_coefficient", "calc_hermitian_matrix_expansion_coefficient_hermitian_basis"):
                mat = np.array(st["mat"])
                keep = mat.copy()
                return {"out": getattr(mb, name)(mat, getattr(mb, st["bases"][0])()), "arg_after": mat, "arg_before": keep}
            if name == "calc_mat_from_coefficient_basis":
                coeff = np.array(st["vec"])
                keep = coeff.copy()
                return {"out": mb.calc_mat_from_coefficient_basis(coeff, getattr(mb, st["bases"][0])()), "arg_after": coeff, "arg_before": keep}
            return getattr(mb, name)(*st.get("args", []))
        if op == "cache":
            c = get(st["csys"])
            if st["action"] == "delete":
                getattr(c, "delete_" + st["table"])()
                return None
            t = getattr(c, st["table"])  # warm-up: the access builds the table
            return None
        if op == "warm_bb":
            c = get(st["csys"])
            return c.basis_basisconjugate(tuple(st["index"]))
        if op == "setq_q":
            q = get(st["on"])
            name = st["name"]
            if name == "view":
                return _setq_view(q)
            if name in ("num_states", "num_povms", "num_gates", "num_mprocesses", "size_var_total"):
                return getattr(q, name)()
            if name == "var_total":
                return q.var_total()
            raise ValueError(name)
        if op == "basis_q":
            b = get(st["on"])
            name = st["name"]
            if name == "getitem":
                return b[st["i"] % len(b)]
            if name == "len":
                return len(b)
            if name == "to_vect":
                return b.to_vect(np.array(st["mat"]))
            return getattr(b, name)()
        if op == "esys_q":
            e = get(st["on"])
            return [bool(e.is_orthonormal_hermitian_0thprop_identity), bool(e.is_hermitian), int(e.dim)]
        if op == "mdist":
            d = get(st["on"])
            if st["name"] == "getitem":
                a = st["args"][0]
                return d[tuple(a) if isinstance(a, list) else a]
            if st["name"] == "ps":
                return d.ps
            if st["name"] == "execute_random_sampling":
                return d.execute_random_sampling(st["args"][0], st["args"][1], st["args"][2])
            return getattr(d, st["name"])(*st["args"])
        if op == "tomo_m":
            qt = get(st["tomo"])
            name = st["name"]
            if name in ("calc_matA", "calc_vecB", "is_fullrank_matA", "generate_empty_estimation_obj_with_setting_info"):
                return getattr(qt, name)()
            if name == "num_variables":
                return qt.num_variables
            if name == "calc_prob_dists":
                return qt.calc_prob_dists(get(st["obj"]))
            if name == "calc_prob_dist":
                return qt.calc_prob_dist(get(st["obj"]), st["i"])
            if name in ("get_coeffs_0th_vec", "get_coeffs_1st_mat", "num_outcomes"):
                return getattr(qt, name)(st["i"])
            if name in ("calc_covariance_mat_single", "calc_covariance_mat_total", "calc_covariance_linear_mat_total", "calc_mse_linear_analytical", "calc_mse_empi_dists_analytical",
                        "calc_fisher_matrix", "calc_fisher_matrix_total", "calc_cramer_rao_bound", "generate_prob_dists_sequence"):
                obj = get(st["obj"])
                ns = list(st.get("ns") or [])
                if name == "calc_covariance_mat_single":
                    return qt.calc_covariance_mat_single(obj, st["i"], ns[0])
                if name == "calc_mse_linear_analytical":
                    return qt.calc_mse_linear_analytical(obj, ns, mode=st.get("mode", "qoperation"))
                if name == "calc_fisher_matrix":
                    return qt.calc_fisher_matrix(st["i"], obj)
                if name == "calc_fisher_matrix_total":
                    return qt.calc_fisher_matrix_total(obj, [float(n) for n in ns])
                if name == "calc_cramer_rao_bound":
                    return qt.calc_cramer_rao_bound(obj, sum(ns), ns)
                if name == "generate_prob_dists_sequence":
                    return qt.generate_prob_dists_sequence(obj)
                return getattr(qt, name)(obj, ns)
            if name in ("generate_empi_dists_sequence", "generate_empi_dists", "generate_empi_dist"):
                obj = get(st["obj"])
                if name == "generate_empi_dists_sequence":
                    return qt.generate_empi_dists_sequence(obj, list(st["num_sums"]), st["seed"])
                if name == "generate_empi_dists":
                    return qt.generate_empi_dists(obj, st["num_sums"][0], st["seed"])
                return qt.generate_empi_dist(st["i"], obj, st["num_sums"][0], st["seed"])
            if name == "convert_var_to_qoperation":
                var = np.array(st["var"])
                out = qt.convert_var_to_qoperation(var)
                return {"out": out, "arg_after": var, "arg_before": np.array(st["var"])}
            raise ValueError(name)
        if op == "estimate":
            if not live and st.get("sequence") is not None:
                # reference for a sequence of datasets: every dataset on its own, with brand-new objects each time
                # (what a re-used loss / algorithm object processed earlier in the same call must not matter either)
                parts = []
                for ds in (st["dataset"], st["sequence"]):
                    sub = dict(st, dataset=ds, sequence=None)
                    c2 = {}
                    parts.append(self.do_estimate(sub, lambda i, c2=c2: self.build_entry(i, c2, False)))
                return {"estimates": parts[0]["estimates"] + parts[1]["estimates"], "qop": parts[0]["qop"] + parts[1]["qop"]}
            return self.do_estimate(st, get)
        if op == "loss_eval":
            return self.do_loss_eval(st, get)
        if op == "basis_write":
            return self.do_basis_write(st, get)
        if op == "copy_edit":
            return self.do_copy_edit(st, get)
        raise ValueError(op)

    def tomo_for(self, st, get):
        """the pool's tomography object, or - for an `ephemeral` step - one built for this step only and dropped afterwards
        (a later temporary object may then live at the same address)."""
        if not st.get("ephemeral"):
            return get(st["tomo"])
        r = self.pool[st["tomo"]]
        testers = [get(t) for t in r["testers"]]
        saved = Settings.get_atol()
        try:
            Settings.set_atol(r.get("born_atol", DEFAULT_ATOL))
            new = W.build_tomo(r, testers)
        finally:
            Settings.set_atol(saved)
        if get.__name__ != "live_get_ephemeral":
            return new
        # fault kind address_reuse (live world only): CPython may give a new object the address of one that has just died.
        # The allocator cannot be steered, so the reuse is modelled: the previous temporary object - if and only if nothing
        # but the harness still refers to it, i.e. it would have been freed - becomes the new one (class and attributes
        # swapped in), so `id()` is the same while the value is the new object's.
        import sys as _sys

        shell = self._shell
        if st.get("reuse_address") and shell is not None and _sys.getrefcount(shell) == 3:
            shell.__class__ = new.__class__
            shell.__dict__ = new.__dict__
            self.bump("faults", "address_reuse")
            self.fault_pending = True
            return shell
        self._shell = new
        return new

    def do_estimate(self, st, get):
        est = get(st["estimator"])
        qt = self.tomo_for(st, get)
        ds = get(st["dataset"])
        seq = [ds] if not st.get("sequence") else [ds, get(st["sequence"])]
        if self.pool[st["estimator"]]["cls"] == "lossmin":
            loss = get(st["loss"])
            algo = get(st["algo"])
            lopt = get(st["loss_option_id"]) if st.get("loss_option_id") is not None else W.build_loss_option(self.pool[st["loss"]]["cls"], st["loss_option"])
            aopt = get(st["algo_option_id"]) if st.get("algo_option_id") is not None else W.build_algo_option(self.pool[st["algo"]]["cls"], st["algo_option"])
            res = est.calc_estimate_sequence(qt, seq, loss=loss, loss_option=lopt, algo=algo, algo_option=aopt, is_computation_time_required=False)
        else:
            res = est.calc_estimate_sequence(qt, seq, is_computation_time_required=False)
        out = {"estimates": [np.array(v) for v in res.estimated_var_sequence], "qop": [W.snapshot_qop(q)["arrays"] for q in res.estimated_qoperation_sequence]}
        if st.get("reread"):
            # the caller edits what the result object handed out (a mutator on a returned estimate, the returned list
            # shortened) and asks again: the result object must answer as before
            first = res.estimated_qoperation_sequence
            one = res.estimated_qoperation
            snap = digest([[W.snapshot_qop(q) for q in first], W.snapshot_qop(one)])
            one.set_zero()
            if first:
                first[0].set_zero()
                first.pop()
            try:
                out["reread_ok"] = digest([[W.snapshot_qop(q) for q in res.estimated_qoperation_sequence], W.snapshot_qop(res.estimated_qoperation)]) == snap
            except Exception:
                out["reread_ok"] = False
        return out

    def do_loss_eval(self, st, get):
        loss = get(st["loss"])
        qt = self.tomo_for(st, get)
        ds = get(st["dataset"])
        lopt = get(st["loss_option_id"]) if st.get("loss_option_id") is not None else W.build_loss_option(self.pool[st["loss"]]["cls"], st["loss_option"])
        loss.set_from_standard_qtomography_option_data(qt, lopt, ds, True, False)
        var = np.array(st["var"])
        return {"value": loss.value(var), "gradient": loss.gradient(var), "arg_after": var, "arg_before": np.array(st["var"])}

    def do_basis_write(self, st, get):
        c = get(st["csys"])
        which = st["which"]
        if which == "basis":
            target = c.basis()[st["i"] % len(c.basis())]
        elif which == "basis_list":
            target = c.basis().basis[st["i"] % len(c.basis())]
        elif which == "esys":
            b = c.elemental_systems[0].basis
            target = b[st["i"] % len(b)]
        else:
            b = c.comp_basis()
            target = b[st["i"] % len(b)]
        before = np.asarray(target.toarray() if sparse.issparse(target) else target).copy()
        raised = None
        try:
            target[0, 0] = 123.0
        except Exception as e:
            raised = type(e).__name__
        after = np.asarray(target.toarray() if sparse.issparse(target) else target)
        return {"raised": raised, "unchanged": bool(np.array_equal(before, after)), "which": which, "target": "csr_matrix" if sparse.issparse(target) else "ndarray"}

    def do_copy_edit(self, st, get):
        obj = get(st["on"])
        c1 = obj.copy()
        c2 = c1.copy()
        snap_o, snap_2 = digest(W.snapshot_qop(obj)), digest(W.snapshot_qop(c2))
        edited = 0
        for arr in self._arrays_of(c1):
            try:
                arr.flat[0] += 1.0
                edited += 1
            except ValueError:
                pass  # read-only storage: nothing to edit
        return {"orig_unchanged": digest(W.snapshot_qop(obj)) == snap_o, "sibling_unchanged": digest(W.snapshot_qop(c2)) == snap_2, "edited": edited,
                "copy_type_ok": type(c1) == type(obj), "copy_equal_before_edit": snap_2 == snap_o}

    @staticmethod
    def _arrays_of(q):
        t = type(q).__name__
        if t == "State":
            return [q.vec]
        if t == "Povm":
            return list(q.vecs)
        if t == "Gate":
            return [q.hs]
        return list(q.hss)

    # --- canaries: results of fixed queries that no history may change ---------------------------------
    CATALOGUE = [("state_typical", "get_state_names"), ("state_typical", "get_state_names_1qubit"), ("state_typical", "get_state_names_2qubit"), ("povm_typical", "get_povm_names"),
                 ("povm_typical", "get_povm_names_1qubit"), ("povm_typical", "get_povm_names_2qubit"), ("povm_typical", "get_povm_names_rank1"), ("gate_typical", "get_gate_names"),
                 ("gate_typical", "get_gate_names_1qubit"), ("gate_typical", "get_gate_names_2qubit"), ("mprocess_typical", "get_mprocess_names_type1"), ("mprocess_typical", "get_mprocess_names_type2")]

    def canaries(self):
        """fixed queries on brand-new objects plus the process-wide settings quara's results depend on.  Evaluated before the
        first step and after every step: whatever the history did, they answer the same."""
        import quara.data_analysis.physicality_violation_check as pvc
        from quara.objects.multinomial_distribution import MultinomialDistribution

        out = {}
        out["text_of_a_distribution"] = str(MultinomialDistribution(np.array([0.99999, 0.00001]), (2,)))
        out["text_of_an_array_with_tiny_entries"] = str(np.array([0.7071067811865476, 1e-17, 0.0, 0.7071067811865476]))
        for mod, fn in self.CATALOGUE[::3]:
            out[f"{mod}.{fn}"] = list(getattr(importlib.import_module(f"quara.objects.{mod}"), fn)())
        out["atol_as_expected"] = Settings.get_atol() == self.atol
        out["ineq_const_eps"] = pvc.get_ineq_const_eps()
        out["numpy_error_state"] = sorted(np.geterr().items())
        out["numpy_print_options"] = sorted((k, str(v)) for k, v in np.get_printoptions().items())
        return out

    def check_canaries(self, idx, st):
        now = self.canaries()
        self.bump("oracle_checks", "O2_canaries")
        if self._canary0 is None:
            self._canary0 = now
            return
        for k, v in now.items():
            if self._canary0.get(k) != v:
                base = self._canary0[k]
                self._canary0 = now  # report once
                raise Violation("O2_history_independence", f"step {idx} ({st['op']} {st.get('name')}) changed what a fixed query on brand-new objects returns: {k} was {str(base)[:120]}, is {str(v)[:120]}",
                                {"step": idx, "st": to_jsonable(st), "canary": k}, {"op": st["op"], "name": st.get("name"), "how": "canary", "canary": k})

    def step(self, idx, st):
        if self._canary0 is None:
            self.check_canaries(idx, st)
        try:
            self._step(idx, st)
        finally:
            pass
        self.check_canaries(idx, st)

    # --- oracles around one step ---------------------------------------------------------------------
    def _step(self, idx, st):
        op = st["op"]
        sig = {"op": op, "name": st.get("name") or st.get("table") or st.get("action") or st.get("how"), "kind": self.pool[st["on"]]["kind"] if isinstance(st.get("on"), int) and st["on"] < len(self.pool) else None}
        self.kinds.append([op, sig["name"], sig["kind"]])
        if op == "flip_begin":
            self.atol = st["atol"]
            Settings.set_atol(self.atol)
            self.flip_depth += 1
            self.bump("faults", "tolerance_flip")
            self.fault_pending = True
            return
        if op == "flip_end":
            self.atol = DEFAULT_ATOL
            Settings.set_atol(self.atol)
            self.bump("faults", "tolerance_restore")
            self.stats["probes"]["_after_restore"] = 1
            return
        if op == "mutate":
            return self.step_mutate(idx, st, sig)
        if op == "bad_setter":
            return self.step_bad_setter(idx, st, sig)
        if op == "chain":
            subs = [sub for sub in st["steps"] if all(sub.get(k) is None or 0 <= sub[k] < len(self.pool) for k in ("estimator", "tomo", "dataset", "loss", "algo", "sequence", "loss_option_id", "algo_option_id"))]
            if not subs:
                return
            st = dict(st, steps=subs)
            for sub in subs:
                for key in ("estimator", "tomo", "dataset", "loss", "algo", "sequence", "loss_option_id", "algo_option_id"):
                    if sub.get(key) is not None:
                        self.build_entry(sub[key], None, True)
                self.track_probes(sub, {"op": sub["op"], "name": None, "kind": None})
            sig = dict(sig, name="+".join(sub["op"] for sub in subs))
        # operands must exist
        for key in ("on", "csys", "estimator", "tomo", "dataset", "loss", "algo", "sequence", "obj", "basis", "loss_option_id", "algo_option_id", "as_list"):
            if key in st and st[key] is not None and not (0 <= st[key] < len(self.pool)):
                return  # shrunk record: operand disappeared -> no-op
        for i in st.get("ids", []):
            if not 0 <= i < len(self.pool):
                return
        # make sure the live operands exist before the snapshot
        def live_get(i):
            try:
                return self.build_entry(i, None, True)
            except Exception as e:
                # a constructor is an operation too: it must succeed here if it succeeds in a fresh world
                try:
                    with W.pristine_containers():
                        self.build_entry(i, {}, False)
                except Exception:
                    raise e
                raise Violation("O2_history_independence", f"step {idx}: pool object {i} ({self.pool[i]['kind']}) cannot be constructed at this point of the history ({type(e).__name__}: {str(e)[:120]}) but can in a fresh world",
                                {"step": idx, "st": to_jsonable(st), "object": i}, dict(sig, how="constructor"))

        for key in ("on", "csys", "estimator", "tomo", "dataset", "loss", "algo", "sequence", "obj", "basis", "loss_option_id", "algo_option_id", "as_list"):
            if key in st and st[key] is not None:
                live_get(st[key])
        for i in st.get("ids", []):
            live_get(i)
        before = self.snapshot_all()
        # ---- live
        exc_live = None
        try:
            out_live = self.apply(st, None, True)
        except Exception as e:
            exc_live = e
            out_live = None
        after = self.snapshot_all()
        if Settings.get_atol() != self.atol:
            # the operation changed the process-wide tolerance and did not put it back: every later predicate, projection
            # and constructor in the process answers for another tolerance than the caller set
            left = Settings.get_atol()
            Settings.set_atol(self.atol)
            raise Violation("O2_history_independence", f"step {idx} ({op} {sig['name']}) {'raised ' + type(exc_live).__name__ + ' and ' if exc_live else ''}left the process-wide tolerance at {left} (it was {self.atol})",
                            {"step": idx, "st": to_jsonable(st), "left": left}, dict(sig, how="global_tolerance_left_changed"))
        # ---- O4 first: a successful write into a basis corrupts every object of that system, which O1 would then
        # report for the wrong reason
        if op == "basis_write" and exc_live is None:
            self.bump("oracle_checks", "O4")
            if out_live["raised"] is None or not out_live["unchanged"]:
                raise Violation("O4_basis_immutability", f"step {idx}: writing into a matrix basis element ({out_live['which']} of a CompositeSystem) {'succeeded' if out_live['raised'] is None else 'raised but changed the basis'}",
                                {"step": idx, "st": to_jsonable(st), "result": out_live}, dict(sig, which=out_live["which"], target=out_live.get("target")))
        # ---- O1 operand immutability
        self.bump("oracle_checks", "O1")
        for i, d in before.items():
            if after.get(i) != d:
                kind = self.pool[i]["kind"]
                raise Violation("O1_operand_immutability", f"step {idx} ({op} {sig['name']}) changed the observable value of pool object {i} ({kind})",
                                {"step": idx, "st": to_jsonable(st), "object": i, "object_kind": kind}, dict(sig, changed=kind))
        # ---- fresh world
        fresh = {}
        Settings.set_atol(self.atol)
        exc_ref = None
        try:
            with W.pristine_containers() as pc:
                out_ref = self.apply(st, fresh, False)
            if pc.saved:
                self.bump("probes", "fresh_world_ran_with_pristine_module_containers")
        except Exception as e:
            exc_ref = e
            out_ref = None
        finally:
            Settings.set_atol(self.atol)
        self.bump("oracle_checks", "O2")
        self.track_probes(st, sig)
        if (exc_live is None) != (exc_ref is None) or (exc_live is not None and type(exc_live) != type(exc_ref)):
            raise Violation("O2_history_independence", f"step {idx} ({op} {sig['name']}): live world {'raised ' + type(exc_live).__name__ if exc_live else 'returned'}, fresh world {'raised ' + type(exc_ref).__name__ if exc_ref else 'returned'}",
                            {"step": idx, "st": to_jsonable(st), "live_exc": str(exc_live)[:300], "ref_exc": str(exc_ref)[:300]}, dict(sig, how="exception"))
        if exc_live is not None:
            self.log.append([op, sig["name"], "exc", type(exc_live).__name__])
            self.bump("probes", "step_raised_same_in_both_worlds")
            return
        ca, cb = W.canon(out_live), W.canon(out_ref)
        da, db = digest(_strip(ca)), digest(_strip(cb))
        self.log.append([op, sig["name"], da])
        if da != db:
            path = _first_diff(_strip(ca), _strip(cb), "result")
            extra = {}
            if op in ("estimate", "loss_eval"):
                extra = {"loss": self.pool[st["loss"]]["cls"] if st.get("loss") is not None else None, "mode_weight": (st.get("loss_option") or {}).get("mode_weight") if st.get("loss_option") else "pool_option",
                         "estimator": self.pool[st["estimator"]]["cls"] if "estimator" in st else None}
            raise Violation("O2_history_independence", f"step {idx} ({op} {sig['name']}): result differs from the same step in a fresh world at {path[0]} ({path[1]}, max abs diff {path[2]})",
                            {"step": idx, "st": to_jsonable(st), "field": path[0], "max_abs_diff": path[2]}, dict(sig, **extra))
        # ---- the caller edits the result it was handed: nothing in the pool may notice
        if st.get("scribble") and op == "m" and st["name"] in ops.SCRIBBLE_OK:
            n = _scribble(out_live)
            if n:
                self.bump("faults", "caller_edits_returned_result")
                self.fault_pending = True
                again = self.snapshot_all()
                for i, d in after.items():
                    if again.get(i) != d:
                        raise Violation("O1_operand_immutability", f"step {idx}: editing the value returned by {sig['name']} changed pool object {i} ({self.pool[i]['kind']})",
                                        {"step": idx, "st": to_jsonable(st), "object": i}, dict(sig, changed="via_returned_result"))
        if isinstance(out_live, dict) and out_live.get("list_unchanged") is False:
            raise Violation("O1_operand_immutability", f"step {idx} ({op}) re-ordered or changed the list it was given", {"step": idx, "st": to_jsonable(st)}, dict(sig, changed="argument_list"))
        if isinstance(out_live, dict) and out_live.get("reread_ok") is False:
            raise Violation("O1_operand_immutability", f"step {idx}: after the caller edited the estimates an estimation result had returned, the result returns other estimates than before",
                            {"step": idx, "st": to_jsonable(st)}, dict(sig, changed="estimation_result_via_returned_estimate"))
        # ---- argument arrays passed by reference must be left alone
        if isinstance(out_live, dict) and "arg_after" in out_live:
            if digest(W.canon(out_live["arg_after"])) != digest(W.canon(out_live["arg_before"])):
                raise Violation("O1_operand_immutability", f"step {idx} ({op} {sig['name']}) modified the array it was given", {"step": idx, "st": to_jsonable(st)}, dict(sig, changed="argument_array"))
        # ---- O3 / O4
        if op == "copy_edit":
            self.bump("oracle_checks", "O3")
            if not (out_live["orig_unchanged"] and out_live["sibling_unchanged"] and out_live["copy_type_ok"] and out_live["copy_equal_before_edit"]):
                raise Violation("O3_copy_independence", f"step {idx}: editing a copy changed the original or a sibling copy, or the copy differs from the original: {out_live}", {"step": idx, "st": to_jsonable(st), "result": out_live}, sig)
        # ---- results that are quara objects join the pool (with the value the fresh world produced)
        if isinstance(out_ref, QOperation) and type(out_ref).__name__.lower() in QOP_KINDS and op in ("m", "compose", "derive", "arith"):
            src = st["on"] if op in ("m", "derive") else (st["ids"][0] if st.get("as_list") is None else self.pool[st["as_list"]]["ids"][0])
            csys_id = self.pool[src]["csys"]
            if out_live.composite_system is self.live.get(csys_id):
                self.last_result_id = None
                if self.generating:
                    st.pop("result_id", None)  # a re-run step is a copy of an earlier one: its result is a new pool entry or none
                    rid = self.add_to_pool(W.qop_recipe(out_ref, csys_id, self.atol), out_live)
                    if rid is not None:
                        st["result_id"] = rid
                        self.last_result_id = rid
                elif "result_id" in st and 0 <= st["result_id"] < len(self.pool) and self.pool[st["result_id"]]["kind"] == type(out_ref).__name__.lower():
                    # replay: the pool entry exists already; the live object is the actual result of this step
                    self.live[st["result_id"]] = out_live
                    self.last_result_id = st["result_id"]
        if self.fault_pending:
            self.nontrivial = True

    def step_bad_setter(self, idx, st, sig):
        """a setter called with an invalid argument must raise and leave its object as it was."""
        i = st["on"]
        if not (isinstance(i, int) and 0 <= i < len(self.pool)) or self.pool[i]["kind"] not in QOP_KINDS:
            return
        obj = self.build_entry(i, None, True)
        before = self.snapshot_all()
        raised = None
        try:
            if st["name"] == "set_mode_proj_order":
                obj.set_mode_proj_order(st["arg"])
            elif st["name"] == "set_mode_sampling":
                obj.set_mode_sampling(st["arg"][0], st["arg"][1])
            else:
                raise ValueError(st["name"])
        except Exception as e:
            raised = type(e).__name__
        self.bump("oracle_checks", "O1")
        self.log.append(["bad_setter", st["name"], raised])
        if raised is None:
            # the call was accepted after all (for this object it is a valid request): treat it as an in-place mutator
            self.live.pop(i, None)
            return
        self.bump("probes", "invalid_setter_call_raised")
        after = self.snapshot_all()
        for j, d in before.items():
            if after.get(j) != d:
                raise Violation("O1_operand_immutability", f"step {idx}: {st['name']}({st['arg']}) raised {raised} but changed pool object {j} ({self.pool[j]['kind']})", {"step": idx, "st": to_jsonable(st), "object": j},
                                dict(sig, changed=self.pool[j]["kind"], how="failed_setter"))

    def step_mutate(self, idx, st, sig):
        """an operation that is documented to change its operand in place (set_zero): the operand is exempt from O1,
        its new value must equal what the same mutation gives in a fresh world, and its recipe follows the new value."""
        i = st["on"]
        if i == "__result_of_previous__":
            i = self.last_result_id
            if i is None:
                return
            st["on"] = i  # the record keeps the resolved id
        if not isinstance(i, int) or not (0 <= i < len(self.pool)) or self.pool[i]["kind"] not in QOP_KINDS + ("setq",):
            return
        obj = self.build_entry(i, None, True)
        before = self.snapshot_all()
        if st["name"] == "append":
            getattr(obj, st["list"]).append(self.build_entry(st["item"], None, True))
        else:
            getattr(obj, st["name"])()
        after = self.snapshot_all()
        self.bump("oracle_checks", "O1")
        holders = {j for j, r in enumerate(self.pool) if (r["kind"] == "setq" and any(i in (r.get(k) or []) for k in ("states", "povms", "gates", "mprocesses"))) or (r["kind"] == "tomo" and i in r["testers"])
                   or (r["kind"] == "oplist" and i in r["ids"])}
        for j, d in before.items():
            if j != i and j not in holders and after.get(j) != d:
                raise Violation("O1_operand_immutability", f"step {idx} ({st['name']} on object {i}) changed pool object {j} ({self.pool[j]['kind']})", {"step": idx, "st": to_jsonable(st), "object": j}, dict(sig, changed=self.pool[j]["kind"]))
        fresh = {}
        ref = self.build_entry(i, fresh, False)
        if st["name"] == "append":
            getattr(ref, st["list"]).append(self.build_entry(st["item"], fresh, False))
            self.bump("oracle_checks", "O2")
            a, b = _setq_view(obj), _setq_view(ref)
            self.log.append(["mutate", "append", digest(a)])
            if digest(a) != digest(b):
                raise Violation("O2_history_independence", f"step {idx}: appending to {st['list']} of set {i} gives a set that differs from the same append on a fresh set", {"step": idx, "st": to_jsonable(st)}, sig)
            rec = copy.deepcopy(self.pool[i])
            rec[st["list"]] = list(rec.get(st["list"]) or []) + [st["item"]]
            self.pool[i] = rec
            self.bump("faults", "in_place_mutator")
            self.fault_pending = True
            return
        getattr(ref, st["name"])()
        self.bump("oracle_checks", "O2")
        a, b = W.snapshot_qop(obj), W.snapshot_qop(ref)
        self.log.append(["mutate", st["name"], digest(a)])
        if digest(a) != digest(b):
            raise Violation("O2_history_independence", f"step {idx}: {st['name']} left object {i} in a state that differs from the same call on a fresh object", {"step": idx, "st": to_jsonable(st)}, sig)
        rec = W.qop_recipe(ref, self.pool[i]["csys"], self.pool[i].get("born_atol", DEFAULT_ATOL))
        for k in ("name",):
            if k in self.pool[i]:
                rec[k] = self.pool[i][k] + "+zeroed"
        self.pool[i] = rec
        self.bump("faults", "in_place_mutator")
        self.fault_pending = True

    def track_probes(self, st, sig):
        op = st["op"]
        pr = self.stats["probes"]
        if op == "cache":
            cid = st["csys"]
            if st["action"] == "delete":
                self.deleted_since.setdefault(cid, set()).add(st["table"])
                self.bump("faults", "cache_delete")
                for grp in ops.JOINT_GROUPS:
                    if st["table"] in grp and not all(t in self.deleted_since[cid] for t in grp):
                        self.bump("probes", "one_table_of_a_joint_group_deleted_siblings_alive")
                self.fault_pending = True
            else:
                self.bump("faults", "cache_warm")
                if st["table"] in self.deleted_since.get(cid, set()):
                    self.deleted_since[cid].discard(st["table"])
                    self.bump("probes", "table_deleted_then_rebuilt")
        elif op in ("m", "modfunc", "compose", "estimate", "with_var", "tomo_m", "mdist", "basis_q", "esys_q", "csys_q", "setq_q"):
            name = st.get("name") or ""
            if any(self.deleted_since.values()) and ("sparsity" in name or "dict" in name or "proj" in name or op == "estimate"):
                self.bump("probes", "operation_after_cache_deletion")
            if self.flip_depth and self.atol != DEFAULT_ATOL:
                self.bump("probes", "operation_inside_tolerance_flip")
            if pr.get("_after_restore"):
                self.bump("probes", "operation_right_after_tolerance_restore")
                pr["_after_restore"] = 0
            if op == "with_var" and not st["para"]:
                self.bump("probes", "with_var_projection_para_false")
        if op in ("estimate", "loss_eval") and st.get("loss") is not None:
            h = self.loss_history.setdefault(st["loss"], [])
            spec = st.get("loss_option") or (self.pool[st["loss_option_id"]]["spec"] if st.get("loss_option_id") is not None and st["loss_option_id"] < len(self.pool) else {})
            h.append((spec.get("mode_weight"), st["dataset"]))
            if len({m for m, _ in h}) >= 2 and len({d for _, d in h}) >= 2:
                self.bump("probes", "loss_object_used_with_2_modes_and_2_datasets")
            if len(h) >= 2:
                self.bump("probes", "loss_or_algo_object_reused")

    def execute(self):
        viol = []
        saved = Settings.get_atol()
        Settings.set_atol(DEFAULT_ATOL)
        try:
            for idx, st in enumerate(self.steps):
                self.stats["steps"] += 1
                try:
                    self.step(idx, st)
                except Violation as e:
                    viol.append(e.v)
                    if matches(self.known, e.v["signature"]) and len(viol) < 10:
                        self.resync()
                        continue
                    break
        finally:
            Settings.set_atol(saved)
        for k in [k for k in self.stats["probes"] if k.startswith("_")]:
            del self.stats["probes"][k]
        return viol

    def resync(self):
        """after a listed finding: replace every live object by its fresh-world twin and carry on."""
        self.live = {}
        Settings.set_atol(self.atol)


def _setq_view(q):
    return {"states": [W.snapshot_qop(x) for x in q.states], "povms": [W.snapshot_qop(x) for x in q.povms], "gates": [W.snapshot_qop(x) for x in q.gates],
            "mprocesses": [W.snapshot_qop(x) for x in q.mprocesses]}


def _scribble(x):
    """overwrites, in place, every writable array reachable from a returned value; returns how many were edited."""
    n = 0
    if isinstance(x, np.ndarray):
        if x.size and x.flags.writeable and x.dtype != object:
            x.flat[0] = x.flat[0] + 7.0
            n += 1
    elif sparse.issparse(x):
        if x.data.size and x.data.flags.writeable:
            x.data[0] = x.data[0] + 7.0
            n += 1
    elif isinstance(x, (list, tuple)):
        for y in x:
            n += _scribble(y)
    return n


def _strip(c):
    """drops the by-reference argument bookkeeping from a canonical result."""
    if isinstance(c, dict) and ("arg_after" in c or "reread_ok" in c or "list_unchanged" in c):
        return {k: v for k, v in c.items() if k not in ("arg_after", "arg_before", "reread_ok", "list_unchanged")}
    if isinstance(c, list):
        return [_strip(x) for x in c]
    return c


def _first_diff(a, b, path):
    if type(a) != type(b):
        return path, f"type {type(a).__name__} vs {type(b).__name__}", None
    if isinstance(a, dict):
        if sorted(a) != sorted(b):
            return path, "keys differ", None
        for k in a:
            d = _first_diff(a[k], b[k], f"{path}.{k}")
            if d:
                return d
        return None
    if isinstance(a, list):
        if len(a) != len(b):
            return path, f"length {len(a)} vs {len(b)}", None
        for i, (x, y) in enumerate(zip(a, b)):
            d = _first_diff(x, y, f"{path}[{i}]")
            if d:
                return d
        return None
    if isinstance(a, np.ndarray):
        if a.shape != b.shape or a.dtype != b.dtype:
            return path, f"shape/dtype {a.shape}/{a.dtype} vs {b.shape}/{b.dtype}", None
        if a.tobytes() != b.tobytes():
            with np.errstate(all="ignore"):
                m = float(np.nanmax(np.abs(a.astype(complex) - b.astype(complex)))) if a.size else 0.0
            return path, "array values differ", m
        return None
    if isinstance(a, float) and isinstance(b, float) and math.isnan(a) and math.isnan(b):
        return None
    if a != b:
        return path, f"{a!r} vs {b!r}", (abs(a - b) if isinstance(a, (int, float, complex)) and not isinstance(a, bool) else None)
    return None


# ---------------------------------------------------------------------------------------------
# step generation (needs the kinds of the pool, which grow while the history runs)
# ---------------------------------------------------------------------------------------------
class Generator:
    def __init__(self, rng, pool, tier, opts, pool0=None):
        self.rng = rng
        self.pool = pool
        self.pool0 = pool0
        self.fault_free = bool(opts.get("fault_free"))
        self.flip_open = False
        rngc = rng
        # swarm weights
        self.w = {
            "m": 6, "with_var": rngc.choice([1, 3]), "modfunc": rngc.choice([1, 3]), "compose": 2, "tensor": rngc.choice([0.3, 1]), "cache": 0 if self.fault_free else rngc.choice([2, 5, 8]),
            "flip": 0 if self.fault_free else rngc.choice([0, 0.5, 1.5]), "estimate": rngc.choice([0.5, 2, 4]), "loss_eval": rngc.choice([0.5, 2]), "basis_write": 0.4, "copy_edit": 0.7, "rerun": 1.0, "dataset": 0.8,
            "mdist": 0.8, "tomo_m": 1.5, "basis_q": 0.8, "csys_q": 0.6, "chain": 0.7, "derive": 1.2, "setq": 0.8, "util": 0.8, "bad_setter": 0 if self.fault_free else 0.6, "arith": 0.6, "basis_fn": 0.4, "catalogue": 0.4,
        }
        self.focus = "general" if self.fault_free else rngc.choice(["general", "general", "cache", "cache", "estimation", "estimation", "projection", "tolerance"])
        if opts.get("focus"):
            self.focus = opts["focus"]
        if self.focus == "cache":
            self.w.update(m=8, modfunc=6, cache=10, estimate=0.3, loss_eval=0.1, tensor=0.1, with_var=1, compose=0.5, flip=0.3, rerun=3, mutate=1.0, csys_q=2.0)
        elif self.focus == "estimation":
            self.w.update(m=1, modfunc=0.3, estimate=8, loss_eval=5, cache=2, tensor=0.1, compose=0.3, rerun=3, flip=1.0, dataset=2, chain=4)
        elif self.focus == "tolerance":
            # predicates and projections whose answer depends on the process-global tolerance, asked inside and outside flips
            self.w.update(m=6, basis_q=6, csys_q=1, flip=4, with_var=2, modfunc=1, estimate=0.5, loss_eval=0.2, cache=1, tensor=0.1, compose=0.5, rerun=4, tomo_m=0.5)
        elif self.focus == "projection":
            self.w.update(m=3, with_var=8, modfunc=1, estimate=1, cache=3, rerun=2)
        self.w.setdefault("mutate", 0 if self.fault_free else 0.4)
        self.history = []

    def ids(self, kind, csys=None):
        return [i for i, r in enumerate(self.pool) if r["kind"] == kind and (csys is None or r.get("csys") == csys)]

    def var_len(self, rec, para):
        k = rec["kind"]
        d2 = int(self.pool[rec["csys"]].get("dim", 2)) ** 2
        if k == "state":
            return d2 - 1 if para else d2
        if k == "povm":
            n = len(rec["vecs"])
            return d2 * (n - 1) if para else d2 * n
        if k == "gate":
            return d2 * d2 - d2 if para else d2 * d2
        n = len(rec["hss"])
        return d2 * d2 * n - d2 if para else d2 * d2 * n

    def next(self):
        rng = self.rng
        # follow-up: an object that has just been produced by an operation (and joined the pool as that very object), or
        # has just been changed in place, is what a caller typically uses next
        run = getattr(self, "run", None)
        fid = None
        if run is not None and not self.fault_free:
            if run.last_result_id is not None and run.last_result_id != getattr(self, "_followed", None):
                fid = run.last_result_id
            elif self.history and self.history[-1]["op"] == "mutate" and isinstance(self.history[-1].get("on"), int) and not getattr(self, "_followed_mut", False):
                fid = self.history[-1]["on"]
        if fid is not None and 0 <= fid < len(self.pool) and self.pool[fid]["kind"] in QOP_KINDS and not self.pool[fid].get("sampling") and rng.random() < 0.5:
            self._followed = fid
            self._followed_mut = True
            st = {"op": "m", "on": fid, "name": rng.choice(["calc_proj_eq_constraint", "calc_proj_ineq_constraint", "calc_proj_physical", "to_var", "to_stacked_vector", "is_physical", "copy"]), "scribble": False}
            self.history.append(st)
            return [st]
        self._followed_mut = False
        kinds = list(self.w)
        choice = rng.choices(kinds, [self.w[k] for k in kinds])[0]
        fn = getattr(self, "g_" + choice)
        st = fn()
        if st is None:
            st = self.g_m()
        sts = st if isinstance(st, list) else [st]
        self.history.extend(sts)
        return sts

    def g_derive(self):
        """an object made from another one's own variables (the arrays may be handed through), often zeroed right afterwards"""
        rng = self.rng
        cands = [j for j, r in enumerate(self.pool) if r["kind"] in QOP_KINDS and r["csys"] == 0 and not r.get("sampling")]
        i = rng.choice(cands)
        kind = self.pool[i]["kind"]
        how = rng.choice(["generate_from_var", "generate_from_var_flags", "copy", "tomo_convert"])
        st = {"op": "derive", "on": i, "how": how, "para": rng.random() < 0.5}
        if how == "tomo_convert":
            want = {"state": "qst", "povm": "povmt", "gate": "qpt", "mprocess": "qmpt"}[kind]
            ts = [t for t in self.ids("tomo") if self.pool[t]["type"] == want and (kind not in ("povm", "mprocess") or len(self.pool[i].get("vecs") or self.pool[i].get("hss")) == 2)]
            # the variables must have the tomography's parametrisation
            ts = [t for t in ts if bool(self.pool[t]["para"]) == bool(self.pool[i]["flags"].get("on_para_eq_constraint"))]
            if not ts:
                st["how"] = "generate_from_var"
            else:
                st["tomo"] = rng.choice(ts)
        out = [st]
        if not self.fault_free and rng.random() < 0.6:
            out.append({"op": "mutate", "on": "__result_of_previous__", "name": "set_zero"})
            out.append({"op": "m", "on": i, "name": rng.choice(["to_var", "to_stacked_vector", "is_physical"])})
        return out

    def g_bad_setter(self):
        rng = self.rng
        cands = [j for j, r in enumerate(self.pool) if r["kind"] in QOP_KINDS]
        i = rng.choice(cands)
        if self.pool[i]["kind"] == "mprocess" and rng.random() < 0.7:
            # invalid combinations of (mode_sampling, random_seed_or_generator)
            return {"op": "bad_setter", "on": i, "name": "set_mode_sampling", "arg": rng.choice([[False, 3], [False, 11], ["yes", None]])}
        return {"op": "bad_setter", "on": i, "name": "set_mode_proj_order", "arg": rng.choice(["bogus", "eq-ineq", ""])}

    def g_mutate(self):
        rng = self.rng
        # only derived objects and the random ones are zeroed; the catalogue testers stay usable for tomography
        used = {t for r in self.pool if r["kind"] == "tomo" for t in r["testers"]}
        # ... and members of a set of operations stay as they are (zeroing a member legitimately changes the set)
        used |= {m for r in self.pool if r["kind"] == "setq" for key in ("states", "povms", "gates", "mprocesses") for m in (r.get(key) or [])}
        used |= {m for r in self.pool if r["kind"] == "oplist" for m in r["ids"]}
        cands = [j for j, r in enumerate(self.pool) if r["kind"] in QOP_KINDS and j not in used and not r.get("sampling")]
        if not cands:
            return None
        i = rng.choice(cands)
        kind = self.pool[i]["kind"]
        pre = {"op": "m", "on": i, "name": rng.choice(ops.CACHE_METHODS0[kind])}
        post = dict(pre)
        return [pre, {"op": "mutate", "on": i, "name": "set_zero"}, post]

    def g_m(self):
        rng = self.rng
        i = rng.choice([j for j, r in enumerate(self.pool) if r["kind"] in QOP_KINDS])
        kind = self.pool[i]["kind"]
        cache_focus = self.focus == "cache" and rng.random() < 0.8
        if cache_focus:
            if ops.CACHE_METHODS1.get(kind) and rng.random() < 0.3:
                name = rng.choice(ops.CACHE_METHODS1[kind])
                arg = rng.randrange(len(self.pool[i].get("vecs") or self.pool[i].get("hss") or [0]))
                return {"op": "m", "on": i, "name": name, "args": [arg], "scribble": (not self.fault_free) and rng.random() < 0.3}
            return {"op": "m", "on": i, "name": rng.choice(ops.CACHE_METHODS0[kind]), "scribble": (not self.fault_free) and rng.random() < 0.3}
        if ops.METHODS1[kind] and rng.random() < 0.25:
            name = rng.choice(ops.METHODS1[kind])
            if name == "calc_gradient":
                arg = rng.randrange(self.var_len(self.pool[i], bool(self.pool[i]["flags"].get("on_para_eq_constraint"))))
            else:
                arg = rng.randrange(len(self.pool[i].get("vecs") or self.pool[i].get("hss") or [0]))
            return {"op": "m", "on": i, "name": name, "args": [arg], "scribble": (not self.fault_free) and rng.random() < 0.2}
        if rng.random() < 0.04:
            return {"op": "m", "on": i, "name": "__str__", "scribble": False}
        if kind == "povm" and rng.random() < 0.15:
            # a measurement process derived from a measurement: every mode, with and without (enough) post-selected states
            mode = rng.choice([0, 1, 2, 2, 3])
            states = self.ids("state", self.pool[i]["csys"])
            n = len(self.pool[i]["vecs"])
            post = None
            if states and (mode == 2 or rng.random() < 0.3):
                post = [rng.choice(states) for _ in range(n if rng.random() < 0.8 else max(1, n - 1))]
            return {"op": "m", "on": i, "name": "generate_mprocess", "mode": mode, "post": post, "scribble": False}
        if kind in ("state", "povm", "gate") and rng.random() < 0.06:
            # conversion into another basis - or into the very basis object the operand lives in
            return {"op": "m", "on": i, "name": "convert_basis", "basis_arg": rng.choice(["own", "own", "comp", "pauli"]), "scribble": (not self.fault_free) and rng.random() < 0.7}
        name = rng.choice(ops.METHODS0[kind])
        st = {"op": "m", "on": i, "name": name, "scribble": (not self.fault_free) and rng.random() < 0.2}
        if name == "convert_to_comp_basis" and rng.random() < 0.6:
            st["kwargs"] = {"mode": rng.choice(["row_major", "column_major"])}
        if name == "calc_proj_physical" and rng.random() < 0.5:
            st["kwargs"] = {"max_iteration": rng.choice([0, 1, 3, 50]), "is_iteration_history": rng.random() < 0.5}
        return st

    def g_with_var(self):
        rng = self.rng
        i = rng.choice([j for j, r in enumerate(self.pool) if r["kind"] in QOP_KINDS])
        rec = self.pool[i]
        name = rng.choice(ops.WITH_VAR)
        para = rng.random() < 0.5
        if name == "convert_stacked_vector_to_var":
            n = self.var_len(rec, False)
        else:
            n = self.var_len(rec, para)
        st = {"op": "with_var", "on": i, "name": name, "para": para, "var": ops.rand_var(rng, n), "via": rng.choice(["static", "instance"]), "proj_order": rng.choice(["eq_ineq", "ineq_eq"]),
              "max_iteration": rng.choice([5, 50, 200])}
        return st

    def g_modfunc(self):
        rng = self.rng
        if self.focus == "cache" and rng.random() < 0.85:
            kind = rng.choice(["gate", "gate", "gate", "state", "povm"])
            name = rng.choice(ops.CACHE_MODFUNCS[kind])
        else:
            kind = rng.choice(["gate", "gate", "state", "povm", "mprocess"])
            name = rng.choice(ops.MODFUNCS[kind])
        cands = [i for i in self.ids(kind) if int(self.pool[self.pool[i]["csys"]].get("dim", 2)) == 2]
        if not cands:
            return None
        src = self.pool[rng.choice(cands)]
        c = src["csys"]
        st = {"op": "modfunc", "module": kind, "name": name, "csys": c}
        if kind == "gate":
            hs = np.array(src["hs"])
            if "from_choi" in name:
                # a Choi matrix computed by the harness from the definition (basis of the 1-qubit normalised Pauli system)
                st["arr"] = _choi_from_hs_1q(hs)
            else:
                st["arr"] = hs
        elif kind == "state":
            vec = np.array(src["vec"])
            st["arr"] = _density_1q(vec) if name == "to_vec_from_density_matrix_with_sparsity" else vec
        elif kind == "povm":
            vecs = [np.array(v) for v in src["vecs"]]
            st["arr"] = [_density_1q(v) for v in vecs] if name == "to_vecs_from_matrices_with_sparsity" else vecs
            st["is_list"] = True
        else:
            st["arr"] = [np.array(h) for h in src["hss"]]
            st["is_list"] = True
        return st

    def g_compose(self):
        rng = self.rng
        c = 0 if rng.random() < 0.8 else 1
        S, P, G, M = self.ids("state", c), self.ids("povm", c), self.ids("gate", c), [m for m in self.ids("mprocess", c) if not self.pool[m].get("sampling")]
        shapes = []
        if G:
            shapes.append(lambda: [rng.choice(G), rng.choice(G)])
        if G and S:
            shapes.append(lambda: [rng.choice(G), rng.choice(S)])
            shapes.append(lambda: [rng.choice(G), rng.choice(G), rng.choice(S)])
        if P and S:
            shapes.append(lambda: [rng.choice(P), rng.choice(S)])
        if P and G:
            shapes.append(lambda: [rng.choice(P), rng.choice(G)])
        if P and G and S:
            shapes.append(lambda: [rng.choice(P), rng.choice(G), rng.choice(S)])
        if M and S:
            shapes.append(lambda: [rng.choice(M), rng.choice(S)])
        if M and G:
            shapes.append(lambda: [rng.choice(M), rng.choice(G)])
            shapes.append(lambda: [rng.choice(G), rng.choice(M)])
        if P and M:
            shapes.append(lambda: [rng.choice(P), rng.choice(M)])
        if M and len(M) >= 1 and rng.random() < 0.3:
            shapes.append(lambda: [rng.choice(M), rng.choice(M)])
        if M and S and rng.random() < 0.5:
            # through a state ensemble (measurement process applied to a state), then a gate / a measurement / another process
            if G:
                shapes.append(lambda: [rng.choice(G), rng.choice(M), rng.choice(S)])
                shapes.append(lambda: [rng.choice(M), rng.choice(G), rng.choice(S)])
            if P:
                shapes.append(lambda: [rng.choice(P), rng.choice(M), rng.choice(S)])
            shapes.append(lambda: [rng.choice(M), rng.choice(M), rng.choice(S)])
        if not shapes:
            return None
        ids = rng.choice(shapes)()
        if rng.random() < 0.3:
            # the caller keeps its operations in one list and hands that list over, more than once
            have = [i for i, r in enumerate(self.pool) if r["kind"] == "oplist"]
            if have and rng.random() < 0.6:
                li = rng.choice(have)
            else:
                rec = {"kind": "oplist", "ids": ids}
                self.pool.append(rec)
                if self.pool0 is not None:
                    self.pool0.append(rec)
                li = len(self.pool) - 1
            st = {"op": "compose", "ids": list(self.pool[li]["ids"]), "as_list": li}
            return [st, copy.deepcopy(st)] if rng.random() < 0.5 else st
        return {"op": "compose", "ids": ids}

    def g_util(self):
        rng = self.rng
        name = rng.choice(["truncate_and_normalize", "truncate_and_normalize", "truncate_imaginary_part", "truncate_computational_fluctuation", "replace_prob_dist", "truncate_hs",
                           "is_hermitian", "is_positive_semidefinite", "calc_left_inv", "calc_covariance_mat", "flatten"])
        st = {"op": "util", "name": name, "eps": rng.choice([None, 1e-8, 1e-3])}
        if name in ("truncate_and_normalize",):
            rows, cols = rng.choice([(1, 2), (3, 2), (2, 4)])
            a = np.array([[rng.choice([0.0, 1e-12, rng.uniform(0.1, 5)]) for _ in range(cols)] for _ in range(rows)])
            st["arr"] = a if rng.random() < 0.7 else a[0]
        elif name in ("replace_prob_dist", "calc_covariance_mat"):
            k = rng.choice([2, 3, 4])
            w = [rng.choice([0.0, rng.random()]) for _ in range(k)]
            if sum(w) == 0:
                w[0] = 1.0
            st["arr"] = np.array([x / sum(w) for x in w])
            st["n"] = rng.choice([10, 100])
        elif name == "truncate_hs":
            st["arr"] = np.array(ops.rand_gate_hs(rng, True), dtype=np.complex128) + 1e-14j
        else:
            m = np.array([[rng.gauss(0, 1) for _ in range(3)] for _ in range(3)])
            st["arr"] = (m + m.T) if name.startswith("is_") else m + (1e-14j if name.startswith("truncate") else 0)
        return st

    def g_tensor(self):
        rng = self.rng
        if rng.random() < 0.15 and len(self.ids("esys")) >= 2:
            ids = rng.sample(self.ids("esys"), 2)
            return {"op": "csys_new", "ids": sorted(ids, reverse=rng.random() < 0.7)}
        ka, kb = rng.choice([("state", "state"), ("povm", "povm"), ("gate", "gate"), ("mprocess", "mprocess"), ("gate", "mprocess"), ("mprocess", "gate")])
        a = [i for i in self.ids(ka, 0) if not self.pool[i].get("sampling")]
        b = [i for i in self.ids(kb, 1) if not self.pool[i].get("sampling")]
        if not a or not b:
            return None
        ids = [rng.choice(a), rng.choice(b)]
        if rng.random() < 0.35:
            ids.reverse()  # the operand on the second system first
        if rng.random() < 0.3 and ka == kb:
            rec = {"kind": "oplist", "ids": ids}
            self.pool.append(rec)
            if self.pool0 is not None:
                self.pool0.append(rec)
            return {"op": "tensor", "ids": list(ids), "as_list": len(self.pool) - 1}
        return {"op": "tensor", "ids": ids}

    def g_catalogue(self):
        rng = self.rng
        mod, fn = rng.choice(Run.CATALOGUE)
        return {"op": "catalogue", "module": mod, "name": fn, "scribble": (not self.fault_free) and rng.random() < 0.5}

    def g_arith(self):
        rng = self.rng
        kind = rng.choice(["state", "povm", "gate", "mprocess"])
        cands = [i for i in self.ids(kind, 0) if not self.pool[i].get("sampling")]
        if not cands:
            return None
        a = rng.choice(cands)
        how = rng.choice(["add", "sub", "mul", "rmul", "div"])
        if how in ("add", "sub"):
            same = [i for i in cands if self.pool[i].get("flags") == self.pool[a].get("flags") and len(self.pool[i].get("vecs", [])) == len(self.pool[a].get("vecs", []))
                    and len(self.pool[i].get("hss", [])) == len(self.pool[a].get("hss", []))]
            b = rng.choice(same) if same and rng.random() < 0.8 else rng.choice(cands)
            return {"op": "arith", "how": how, "ids": [a, b]}
        return {"op": "arith", "how": how, "ids": [a], "k": rng.choice([2, 0.5, -1.0, 3, 0.25] + ([0] if how != "div" else []))}

    def g_basis_fn(self):
        rng = self.rng
        r = rng.random()
        B2 = ["get_comp_basis", "get_pauli_basis", "get_normalized_pauli_basis", "get_hermitian_basis", "get_normalized_hermitian_basis"]
        if r < 0.4:
            name = rng.choice(B2 + ["get_gell_mann_basis", "get_normalized_gell_mann_basis", "get_generalized_gell_mann_basis", "get_normalized_generalized_gell_mann_basis"])
            st = {"op": "basis_fn", "name": name, "args": []}
            if name in ("get_pauli_basis", "get_normalized_pauli_basis") and rng.random() < 0.3:
                st["args"] = [2]
            elif name in ("get_comp_basis", "get_hermitian_basis", "get_normalized_hermitian_basis") and rng.random() < 0.4:
                st["args"] = [rng.choice([2, 3])]
            return st
        if r < 0.6:
            st = {"op": "basis_fn", "name": "convert_vec", "bases": [rng.choice(B2), rng.choice(B2)], "vec": np.array([rng.gauss(0, 1) for _ in range(4)]), "scribble": not self.fault_free}
            if rng.random() < 0.4:
                st["bases"][1] = st["bases"][0]
                st["same_object"] = rng.random() < 0.6
            return st
        m = np.array([[complex(rng.gauss(0, 1), rng.gauss(0, 1)) for _ in range(2)] for _ in range(2)])
        if r < 0.8:
            return {"op": "basis_fn", "name": "calc_matrix_expansion_coefficient", "bases": [rng.choice(B2)], "mat": m}
        if r < 0.9:
            return {"op": "basis_fn", "name": "calc_hermitian_matrix_expansion_coefficient_hermitian_basis", "bases": [rng.choice(B2[1:])], "mat": m + m.conj().T}
        return {"op": "basis_fn", "name": "calc_mat_from_coefficient_basis", "bases": [rng.choice(B2)], "vec": np.array([rng.gauss(0, 1) for _ in range(4)])}

    def g_cache(self):
        rng = self.rng
        c = 0 if rng.random() < 0.85 else 1
        r = rng.random()
        if r < 0.5:
            return {"op": "cache", "csys": c, "action": "delete", "table": rng.choice(ops.CACHE_TABLES)}
        if r < 0.9:
            return {"op": "cache", "csys": c, "action": "warm", "table": rng.choice(ops.CACHE_TABLES)}
        n = int(self.pool[c].get("dim", 2)) ** 2
        return {"op": "warm_bb", "csys": c, "index": [rng.randrange(n), rng.randrange(n)]}

    def g_flip(self):
        rng = self.rng
        if self.flip_open:
            self.flip_open = False
            return {"op": "flip_end"}
        self.flip_open = True
        return {"op": "flip_begin", "atol": rng.choice([1e-2, 1e-6, 1e-10, 1e-15])}

    def g_dataset(self):
        rng = self.rng
        tomos = [t for t in self.ids("tomo") if self.pool[t]["type"] in ("qst", "povmt", "qpt")]
        if not tomos:
            return None
        t = rng.choice(tomos)
        self.make_dataset(t)
        return None

    def make_dataset(self, t):
        """adds a dataset entry for tomography entry t; distributions come from the harness (uniform-ish random)."""
        rng = self.rng
        rec = self.pool[t]
        n_sched = {"qst": len(rec["testers"]), "povmt": len(rec["testers"]), "qpt": 12, "qmpt": 12}[rec["type"]]
        n_out = 2
        probs = []
        for _ in range(n_sched):
            style = rng.random()
            if style < 0.25:
                p = [1.0, 0.0] if rng.random() < 0.5 else [0.0, 1.0]
            else:
                a = rng.random()
                p = [a, 1 - a]
            probs.append(p)
        size = rng.choice([[10], [100], [1000], [10, 100, 1000]])
        data = ops.gen_dataset(rng, probs, size)
        n0 = data[0][0]
        data = [[n0, d[1]] if rng.random() < 0.7 else d for d in data]
        self.pool.append({"kind": "dataset", "tomo": t, "data": data})
        if self.pool0 is not None:
            self.pool0.append(self.pool[-1])
        return len(self.pool) - 1

    def datasets_for(self, t):
        ds = [i for i, r in enumerate(self.pool) if r["kind"] == "dataset" and r["tomo"] == t]
        if len(ds) < 2 or (len(ds) < 4 and self.rng.random() < 0.3):
            ds.append(self.make_dataset(t))
        return ds

    def loss_option(self, cls, tomo_rec):
        rng = self.rng
        if cls in ("se", "fast_se"):
            mode = rng.choice(["identity", "identity", "inverse_sample_covariance", "inverse_unbiased_covariance", "custom"])
            if mode == "custom":
                n = len(tomo_rec["testers"]) if tomo_rec["type"] != "qpt" else 12
                ws = []
                for _ in range(n):
                    a, b, c = rng.uniform(0.5, 2), rng.uniform(-0.3, 0.3), rng.uniform(0.5, 2)
                    ws.append(np.array([[a, b], [b, c]]))
                return {"mode_weight": "custom", "weights": ws}
            return {"mode_weight": mode}
        return {"mode_weight": "identity"}

    def algo_option(self):
        rng = self.rng
        return {"eq": rng.random() < 0.75, "ineq": rng.random() < 0.75, "max_iteration": rng.choice([3, 10, 30]), "proj_order": rng.choice(["eq_ineq", "ineq_eq"]), "eps": rng.choice([1e-6, 1e-9]),
                "stopping": rng.choice(["single_difference_loss", "sum_absolute_difference_variable"]), "num_history": 1}

    def pool_option(self, kind, cls, make_spec):
        """an option object that lives in the pool and is handed to several calls (the same Python object every time)."""
        rng = self.rng
        have = [i for i, r in enumerate(self.pool) if r["kind"] == kind and r["cls"] == cls and (kind != "loss_option" or r.get("tomo_shape") == make_spec[1])]
        if have and (len(have) >= 3 or rng.random() < 0.6):
            return rng.choice(have)
        rec = {"kind": kind, "cls": cls, "spec": make_spec[0]()}
        if kind == "loss_option":
            rec["tomo_shape"] = make_spec[1]
        self.pool.append(rec)
        if self.pool0 is not None:
            self.pool0.append(rec)
        return len(self.pool) - 1

    def attach_options(self, st, t):
        """half of the time the options of an estimation are pool objects re-used across calls, otherwise fresh literals."""
        rng = self.rng
        if rng.random() < 0.5:
            return
        trec = self.pool[t]
        shape = f"{trec['type']}:{len(trec['testers'])}"
        if st.get("loss") is not None:
            lcls = self.pool[st["loss"]]["cls"]
            st["loss_option_id"] = self.pool_option("loss_option", lcls, (lambda: self.loss_option(lcls, trec), shape))
            st["loss_option"] = None
        if st.get("algo") is not None:
            acls = self.pool[st["algo"]]["cls"]
            st["algo_option_id"] = self.pool_option("algo_option", acls, (lambda: self.algo_option(), None))
            st["algo_option"] = None

    def g_estimate(self):
        rng = self.rng
        tomos = [t for t in self.ids("tomo") if self.pool[t]["type"] in ("qst", "povmt") or (self.pool[t]["type"] == "qpt" and rng.random() < 0.3)]
        if not tomos:
            return None
        t = rng.choice(tomos)
        ds = self.datasets_for(t)
        e = rng.choice(self.ids("estimator"))
        st = {"op": "estimate", "estimator": e, "tomo": t, "dataset": rng.choice(ds), "ephemeral": rng.random() < 0.35, "reuse_address": (not self.fault_free) and rng.random() < 0.6,
              "reread": (not self.fault_free) and rng.random() < 0.4}
        if rng.random() < 0.3 and len(ds) >= 2:
            st["sequence"] = rng.choice(ds)
        if self.pool[e]["cls"] == "lossmin":
            heavy = self.pool[t]["type"] == "qpt"
            losses = [l for l in self.ids("loss") if not heavy or self.pool[l]["cls"].startswith("fast")]
            st["loss"] = rng.choice(losses)
            st["algo"] = rng.choice(self.ids("algo"))
            st["loss_option"] = self.loss_option(self.pool[st["loss"]]["cls"], self.pool[t])
            st["algo_option"] = self.algo_option()
            self.attach_options(st, t)
        return st

    def g_chain(self):
        """2-3 estimations / loss evaluations back to back on one loss object, each with a temporary tomography object."""
        rng = self.rng
        subs = []
        if not self.ids("loss") or not self.ids("algo"):
            return None
        loss = rng.choice(self.ids("loss"))
        algo = rng.choice(self.ids("algo"))
        ests = [e for e in self.ids("estimator") if self.pool[e]["cls"] == "lossmin"]
        tomos = [t for t in self.ids("tomo") if self.pool[t]["type"] in ("qst", "povmt")]
        if not ests or not tomos:
            return None
        qsts = [t for t in tomos if self.pool[t]["type"] == "qst"]
        if rng.random() < 0.7:
            fast = [l for l in self.ids("loss") if self.pool[l]["cls"].startswith("fast")]
            loss = rng.choice(fast or [loss])
        for k in range(rng.randint(2, 3)):
            t = qsts[k % len(qsts)] if len(qsts) >= 2 and rng.random() < 0.7 else rng.choice(tomos)
            ds = self.datasets_for(t)
            rec = self.pool[t]
            if rng.random() < 0.65:
                nvar = {"qst": 3 if rec["para"] else 4, "povmt": 4 if rec["para"] else 8}[rec["type"]]
                subs.append({"op": "loss_eval", "loss": loss, "tomo": t, "dataset": rng.choice(ds), "loss_option": self.loss_option(self.pool[loss]["cls"], rec), "var": ops.rand_var(rng, nvar, 0.3), "ephemeral": True, "reuse_address": rng.random() < 0.8})
            else:
                subs.append({"op": "estimate", "estimator": ests[0], "tomo": t, "dataset": rng.choice(ds), "loss": loss, "algo": algo, "loss_option": self.loss_option(self.pool[loss]["cls"], rec),
                             "algo_option": self.algo_option(), "ephemeral": True, "reuse_address": rng.random() < 0.8})
        return {"op": "chain", "steps": subs}

    def g_loss_eval(self):
        rng = self.rng
        tomos = [t for t in self.ids("tomo") if self.pool[t]["type"] in ("qst", "povmt")]
        if not tomos:
            return None
        t = rng.choice(tomos)
        ds = self.datasets_for(t)
        l = rng.choice(self.ids("loss"))
        rec = self.pool[t]
        nvar = {"qst": 3 if rec["para"] else 4, "povmt": 4 if rec["para"] else 8}[rec["type"]]
        st = {"op": "loss_eval", "loss": l, "tomo": t, "dataset": rng.choice(ds), "loss_option": self.loss_option(self.pool[l]["cls"], rec), "var": ops.rand_var(rng, nvar, 0.3),
              "ephemeral": rng.random() < 0.35, "reuse_address": (not self.fault_free) and rng.random() < 0.6}
        self.attach_options(st, t)
        return st

    def g_setq(self):
        rng = self.rng
        sets = self.ids("setq")
        if not sets:
            return None
        i = rng.choice(sets)
        if not self.fault_free and rng.random() < 0.35:
            lst = rng.choice(["states", "povms", "gates", "mprocesses"])
            kind = {"states": "state", "povms": "povm", "gates": "gate", "mprocesses": "mprocess"}[lst]
            items = self.ids(kind, 0)
            if items:
                other = rng.choice(sets)
                return [{"op": "mutate", "on": i, "name": "append", "list": lst, "item": rng.choice(items)},
                        {"op": "setq_q", "on": other, "name": rng.choice(["view", "num_" + lst, "size_var_total"])}]
        return {"op": "setq_q", "on": i, "name": rng.choice(["view", "num_states", "num_povms", "num_gates", "num_mprocesses", "size_var_total", "var_total"])}

    def g_basis_q(self):
        rng = self.rng
        cands = self.ids("basis") + self.ids("esys")
        if not cands:
            return None
        i = rng.choice(cands)
        if self.pool[i]["kind"] == "esys":
            return {"op": "esys_q", "on": i}
        name = rng.choice(["is_orthogonal", "is_orthogonal", "is_normal", "is_hermitian", "is_0thpropI", "is_trace_less", "getitem", "len"])
        st = {"op": "basis_q", "on": i, "name": name}
        if name == "getitem":
            st["i"] = rng.randrange(4)
        return st

    def g_csys_q(self):
        rng = self.rng
        c = 0 if rng.random() < 0.8 else 1
        r = rng.random()
        if r < 0.6:
            return {"op": "csys_q", "csys": c, "name": "comp_basis", "mode": rng.choice(["row_major", "column_major"])}
        if r < 0.8:
            return {"op": "csys_q", "csys": c, "name": "get_basis", "i": rng.randrange(4)}
        return {"op": "csys_q", "csys": c, "name": rng.choice(["dim", "num_e_sys", "is_orthonormal_hermitian_0thprop_identity", "is_basis_hermitian"])}

    def g_mdist(self):
        rng = self.rng
        cands = self.ids("mdist")
        if not cands:
            return None
        i = rng.choice(cands)
        shape = self.pool[i]["shape"]
        r = rng.random()
        if r < 0.35:
            keep = sorted(rng.sample(range(len(shape)), rng.randint(1, len(shape))))
            return {"op": "mdist", "on": i, "name": "marginalize", "args": [keep]}
        if r < 0.7:
            k = rng.randint(1, len(shape))
            idx = sorted(rng.sample(range(len(shape)), k))
            return {"op": "mdist", "on": i, "name": "conditionalize", "args": [idx, [rng.randrange(shape[j]) for j in idx]]}
        if r < 0.8:
            return {"op": "mdist", "on": i, "name": "getitem", "args": [[rng.randrange(d) for d in shape]]}
        if r < 0.92:
            return {"op": "mdist", "on": i, "name": "execute_random_sampling", "args": [rng.choice([1, 10, 100]), rng.randint(1, 3), rng.randrange(50)]}
        return {"op": "mdist", "on": i, "name": "ps", "args": []}

    def g_tomo_m(self):
        rng = self.rng
        tomos = self.ids("tomo")
        if not tomos:
            return None
        t = rng.choice(tomos)
        rec = self.pool[t]
        ANALYTIC = ["calc_covariance_mat_single", "calc_covariance_mat_total", "calc_covariance_linear_mat_total", "calc_mse_linear_analytical", "calc_mse_empi_dists_analytical",
                    "calc_fisher_matrix", "calc_fisher_matrix_total", "calc_cramer_rao_bound", "generate_prob_dists_sequence"]
        name = rng.choice(["calc_matA", "calc_vecB", "is_fullrank_matA", "num_variables", "generate_empty_estimation_obj_with_setting_info", "calc_prob_dists", "calc_prob_dists", "calc_prob_dist",
                           "convert_var_to_qoperation", "generate_empi_dists_sequence", "generate_empi_dists", "generate_empi_dist", "get_coeffs_0th_vec", "get_coeffs_1st_mat", "num_outcomes"] + ANALYTIC)
        st = {"op": "tomo_m", "tomo": t, "name": name}
        kind = {"qst": "state", "povmt": "povm", "qpt": "gate", "qmpt": "mprocess"}[rec["type"]]
        n_sched_all = {"qst": len(rec["testers"]), "povmt": len(rec["testers"]), "qpt": 12, "qmpt": 12}[rec["type"]]
        if name in ("get_coeffs_0th_vec", "get_coeffs_1st_mat", "num_outcomes"):
            st["i"] = rng.randrange(n_sched_all)
            return st
        if name in ANALYTIC:
            cands = [i for i in self.ids(kind, 0) if (kind != "povm" or len(self.pool[i]["vecs"]) == 2) and (kind != "mprocess" or len(self.pool[i]["hss"]) == 2) and self.pool[i].get("name")]
            if not cands:
                return None
            st["obj"] = rng.choice(cands)
            st["ns"] = [rng.choice([10, 100, 1000]) for _ in range(n_sched_all)]
            st["i"] = rng.randrange(n_sched_all)
            st["mode"] = rng.choice(["qoperation", "var"])
            return st
        if name in ("calc_prob_dists", "calc_prob_dist", "generate_empi_dists_sequence", "generate_empi_dists", "generate_empi_dist"):
            # data generation needs a physical unknown (probabilities); catalogue objects are
            phys = name.startswith("generate")
            cands = [i for i in self.ids(kind, 0) if (kind != "povm" or len(self.pool[i]["vecs"]) == 2) and (kind != "mprocess" or len(self.pool[i]["hss"]) == 2) and (not phys or self.pool[i].get("name"))]
            if not cands:
                return None
            st["obj"] = rng.choice(cands)
            if name.startswith("generate"):
                st["num_sums"] = sorted(set(rng.choice([1, 10, 100]) for _ in range(2)))
                st["seed"] = rng.randrange(100)
            if name in ("calc_prob_dist", "generate_empi_dist"):
                n_sched = {"qst": len(rec["testers"]), "povmt": len(rec["testers"]), "qpt": 12, "qmpt": 12}[rec["type"]]
                st["i"] = rng.randrange(n_sched)
        if name == "convert_var_to_qoperation":
            nvar = {"qst": 3 if rec["para"] else 4, "povmt": 4 if rec["para"] else 8, "qpt": 12 if rec["para"] else 16, "qmpt": 28 if rec["para"] else 32}.get(rec["type"])
            if nvar is None:
                return None
            st["var"] = ops.rand_var(rng, nvar, 0.3)
        return st

    def g_basis_write(self):
        rng = self.rng
        return {"op": "basis_write", "csys": rng.choice([0, 0, 1]), "which": rng.choice(["basis", "basis_list", "esys", "comp"]), "i": rng.randrange(16)}

    def g_copy_edit(self):
        rng = self.rng
        return {"op": "copy_edit", "on": rng.choice([j for j, r in enumerate(self.pool) if r["kind"] in QOP_KINDS])}

    def g_rerun(self):
        cands = [s for s in self.history if s["op"] in ("m", "with_var", "modfunc", "compose", "arith", "basis_fn", "tensor", "catalogue", "estimate", "loss_eval", "tomo_m", "mdist", "basis_q", "esys_q", "csys_q", "derive", "setq_q", "util")]
        if not cands:
            return None
        st = copy.deepcopy(self.rng.choice(cands))
        st.pop("result_id", None)  # the copy is a new step: whether its result joins the pool is decided when it runs
        return st


def _pauli_basis():
    s2 = 1 / math.sqrt(2)
    return [s2 * np.array(m, dtype=complex) for m in ([[1, 0], [0, 1]], [[0, 1], [1, 0]], [[0, -1j], [1j, 0]], [[1, 0], [0, -1]])]


def _density_1q(vec):
    return sum(v * b for v, b in zip(vec, _pauli_basis()))


def _choi_from_hs_1q(hs):
    B = _pauli_basis()
    J = np.zeros((4, 4), dtype=complex)
    for i in range(4):
        for j in range(4):
            J += hs[i, j] * np.kron(B[i], B[j].conj())
    return J


def run_record(record, want_record=True):
    run = Run(record)
    viol = run.execute()
    res = {"ok": not viol, "violations": viol[:5], "log_digest": digest(run.log), "sched_digest": digest(run.kinds), "nontrivial": bool(run.nontrivial), "stats": run.stats, "seed": record.get("seed")}
    if viol or want_record:
        res["record"] = record
    return res


def run_seed(seed, tier, opts):
    """steps are generated while the history runs (the pool grows), recorded explicitly, and replayable as they are."""
    W.reset_containers()
    rng = rng_for(seed, "histsim")
    if opts.get("directed"):
        from histsim import directed

        record = directed.record(opts["directed"], seed, rng, tier)
        return run_record(record, want_record=bool(opts.get("want_record")))
    pool, _ = gen_pool(rng, tier, opts)
    record = {"engine": "histsim", "seed": seed, "tier": tier, "opts": {k: v for k, v in opts.items() if k != "want_record"}, "pool": to_jsonable(pool), "steps": []}
    run = Run(record)
    run.generating = True
    gen = Generator(rng, run.pool, tier, opts, pool0=run.pool0)
    gen.run = run
    nsteps = rng.randint(5, 60 if tier == "thorough" else 40)
    viol = []
    saved = Settings.get_atol()
    Settings.set_atol(DEFAULT_ATOL)
    try:
        idx = 0
        while idx < nsteps and not viol:
            for st in gen.next():
                run.steps.append(st)
                run.stats["steps"] += 1
                try:
                    run.step(idx, st)
                except Violation as e:
                    viol.append(e.v)
                    if matches(run.known, e.v["signature"]) and len(viol) < 10:
                        run.resync()
                    else:
                        break
                idx += 1
        if gen.flip_open:
            run.steps.append({"op": "flip_end"})
            try:
                run.step(idx, run.steps[-1])
            except Violation as e:
                viol.append(e.v)
    finally:
        Settings.set_atol(saved)
    for k in [k for k in run.stats["probes"] if k.startswith("_")]:
        del run.stats["probes"][k]
    # the record holds the complete pool: initial recipes, datasets added by the generator, and the literal recipes of
    # results that joined the pool (on replay their live object is re-bound to the actual result via result_id)
    record["pool"] = to_jsonable(run.pool0)
    record["steps"] = to_jsonable(run.steps)
    res = {"ok": not viol, "violations": viol[:5], "log_digest": digest(run.log), "sched_digest": digest(run.kinds), "nontrivial": bool(run.nontrivial), "stats": run.stats, "seed": seed}
    if viol or opts.get("want_record"):
        res["record"] = record
    return res
