"""Shrinking of histsim records: drop steps (ddmin), then simplify.  Pool entries are never renumbered: steps whose
operands disappear become no-ops, derived objects fall back to their literal recipe."""
import copy

from simcore.ddmin import drop_chunks, with_steps


def shrink_candidates(record):
    steps = record["steps"]
    for sub in drop_chunks(steps):
        yield with_steps(record, sub)
    for i, st in enumerate(steps):
        if st.get("op") == "estimate" and st.get("sequence") is not None:
            s = copy.deepcopy(st)
            s.pop("sequence")
            yield with_steps(record, steps[:i] + [s] + steps[i + 1:])
        if st.get("op") == "estimate" and (st.get("algo_option") or {}).get("max_iteration", 0) > 3:
            s = copy.deepcopy(st)
            s["algo_option"]["max_iteration"] = 3
            yield with_steps(record, steps[:i] + [s] + steps[i + 1:])
