"""Directed histories: fault placement that uniform sampling reaches too rarely - a cache fault *between* two operations that
depend on the affected table, and the *same* option object handed to a re-used loss / algorithm object on either side of
a different one, and algorithm options that differ only in how the physical projection is carried out.  Only the shape of the history is fixed; objects, tables and arguments are drawn from the seed."""
import copy

import numpy as np

from simcore.util import to_jsonable

from histsim import ops
from histsim.engine import Generator, gen_pool, QOP_KINDS


def record(name, seed, rng, tier):
    pool, _ = gen_pool(rng, tier, {"fault_free_small": True})
    pool0 = list(pool)
    gen = Generator(rng, pool, tier, {"focus": "cache" if name == "cache_triples" else "estimation"}, pool0=pool0)
    steps = []
    if name == "cache_triples":
        qops = [i for i, r in enumerate(pool) if r["kind"] in QOP_KINDS and r["csys"] == 0]
        for _ in range(30):
            def dep_op():
                if rng.random() < 0.3:
                    st = gen.g_modfunc()
                    if st is not None:
                        return st
                i = rng.choice(qops)
                kind = pool[i]["kind"]
                if ops.CACHE_METHODS1.get(kind) and rng.random() < 0.3:
                    n = len(pool[i].get("vecs") or pool[i].get("hss") or [0])
                    return {"op": "m", "on": i, "name": rng.choice(ops.CACHE_METHODS1[kind]), "args": [rng.randrange(n)]}
                return {"op": "m", "on": i, "name": rng.choice(ops.CACHE_METHODS0[kind])}

            a = dep_op()
            b = copy.deepcopy(a) if rng.random() < 0.6 else dep_op()
            table = rng.choice(ops.CACHE_TABLES)
            mid = [{"op": "cache", "csys": 0, "action": "delete", "table": table}]
            r = rng.random()
            if r < 0.3:
                sib = [g for g in ops.JOINT_GROUPS if table in g]
                other = rng.choice([t for t in (sib[0] if sib else ops.CACHE_TABLES) if t != table] or ops.CACHE_TABLES)
                mid.append({"op": "cache", "csys": 0, "action": "warm", "table": other})
            elif r < 0.45:
                mid.insert(0, {"op": "cache", "csys": 0, "action": "warm", "table": rng.choice(ops.CACHE_TABLES)})
            elif r < 0.55:
                mid.append({"op": "cache", "csys": 0, "action": "delete", "table": rng.choice(ops.CACHE_TABLES)})
            steps += [a] + mid + [b]
    elif name == "option_alternation":
        ests = [i for i, r in enumerate(pool) if r["kind"] == "estimator" and r["cls"] == "lossmin"]
        tomos = [i for i, r in enumerate(pool) if r["kind"] == "tomo" and r["type"] in ("qst", "povmt")]
        for _ in range(6):
            t = rng.choice(tomos)
            ds = gen.datasets_for(t)
            loss = rng.choice(gen.ids("loss"))
            algo = rng.choice(gen.ids("algo"))
            lcls, acls = pool[loss]["cls"], pool[algo]["cls"]

            def add(kind, cls, spec):
                rec = {"kind": kind, "cls": cls, "spec": spec}
                pool.append(rec)
                pool0.append(rec)
                return len(pool) - 1

            a_on = add("algo_option", acls, dict(gen.algo_option(), eq=True, ineq=True))
            a_off = add("algo_option", acls, dict(gen.algo_option(), eq=False, ineq=False))
            a_mix = add("algo_option", acls, dict(gen.algo_option(), eq=True, ineq=False))
            l_first = add("loss_option", lcls, gen.loss_option(lcls, pool[t]))
            l_other = add("loss_option", lcls, gen.loss_option(lcls, pool[t]))
            l_ident = add("loss_option", lcls, {"mode_weight": "identity"})
            for lo, ao in [(l_first, a_on), (rng.choice([l_other, l_ident]), rng.choice([a_off, a_mix])), (l_first, a_on), (l_ident, a_off), (l_first, a_on)]:
                steps.append({"op": "estimate", "estimator": ests[0], "tomo": t, "dataset": rng.choice(ds), "loss": loss, "algo": algo, "loss_option": None, "algo_option": None,
                              "loss_option_id": lo, "algo_option_id": ao})
                if rng.random() < 0.4:
                    nvar = {"qst": 3 if pool[t]["para"] else 4, "povmt": 4 if pool[t]["para"] else 8}[pool[t]["type"]]
                    steps.append({"op": "loss_eval", "loss": loss, "tomo": t, "dataset": rng.choice(ds), "loss_option": None, "loss_option_id": lo, "var": ops.rand_var(rng, nvar, 0.3)})
    elif name == "projection_alternation":
        # one algorithm object, one tomography object, one dataset far outside the physical region; the options agree on
        # which constraints are enforced and differ only in *how* the projection is carried out (order, iteration cap)
        ests = [i for i, r in enumerate(pool) if r["kind"] == "estimator" and r["cls"] == "lossmin"]
        tomos = [i for i, r in enumerate(pool) if r["kind"] == "tomo" and r["type"] in ("qst", "povmt")]
        loose = [i for i in tomos if not pool[i]["para"]]
        for _ in range(3):
            t = rng.choice(loose or tomos)
            n_sched = len(pool[t]["testers"])
            n = rng.choice([100, 1000])
            skew = [rng.choice([0.0, 0.05, 0.1]) for _ in range(n_sched)]
            rec = {"kind": "dataset", "tomo": t, "data": [[n, np.array([1.0 - e, e])] for e in skew]}
            pool.append(rec)
            pool0.append(rec)
            d = len(pool) - 1
            loss = rng.choice([i for i in gen.ids("loss") if pool[i]["cls"] in ("se", "fast_se")] or gen.ids("loss"))
            algo = rng.choice(gen.ids("algo"))
            lcls, acls = pool[loss]["cls"], pool[algo]["cls"]

            def add(kind, cls, spec):
                rec = {"kind": kind, "cls": cls, "spec": spec}
                pool.append(rec)
                pool0.append(rec)
                return len(pool) - 1

            base = dict(gen.algo_option(), eq=True, ineq=True, max_iteration=30, stopping="sum_absolute_difference_variable")
            a_first = add("algo_option", acls, dict(base, proj_order="eq_ineq"))
            a_order = add("algo_option", acls, dict(base, proj_order="ineq_eq", max_iteration_proj=2))
            a_cap = add("algo_option", acls, dict(base, proj_order="eq_ineq", max_iteration_proj=1))
            l_ident = add("loss_option", lcls, {"mode_weight": "identity"})
            for ao in [a_first, a_order, a_first, a_cap, rng.choice([a_order, a_cap])]:
                steps.append({"op": "estimate", "estimator": ests[0], "tomo": t, "dataset": d, "loss": loss, "algo": algo, "loss_option": None, "algo_option": None,
                              "loss_option_id": l_ident, "algo_option_id": ao})
    elif name == "basis_pair":
        # two 1-qubit systems of equal dimension over different bases (computational vs the pool's normalised Pauli basis):
        # table-backed queries on one, then on the other, in both orders, with table drops in between
        def add(rec):
            pool.append(rec)
            pool0.append(rec)
            return len(pool) - 1

        flags = {"is_physicality_required": False, "is_estimation_object": True, "on_para_eq_constraint": True, "on_algo_eq_constraint": True, "on_algo_ineq_constraint": True,
                 "mode_proj_order": "eq_ineq", "eps_proj_physical": None, "eps_truncate_imaginary_part": None}
        born = pool[[i for i, r in enumerate(pool) if r["kind"] == "state"][0]].get("born_atol")
        c2 = add({"kind": "csys", "mode": "qubit", "num": 1, "ids": [5], "dim": 2, "basis": "comp"})
        a = rng.uniform(0.2, 0.8)
        comp = [add({"kind": "state", "csys": c2, "vec": [a, 0.0, 0.0, 1.0 - a], "flags": dict(flags), "born_atol": born}),
                add({"kind": "gate", "csys": c2, "hs": np.eye(4), "flags": dict(flags), "born_atol": born})]
        pauli = [i for i, r in enumerate(pool) if r["kind"] in ("state", "gate") and r["csys"] == 0]

        def q(i):
            names = {"state": ["to_density_matrix_with_sparsity", "is_physical", "calc_eigenvalues"], "gate": ["to_choi_matrix_with_sparsity", "to_choi_matrix_with_dict", "to_kraus_matrices", "is_cp"]}
            return {"op": "m", "on": i, "name": rng.choice(names[pool[i]["kind"]])}

        first, second = (comp, pauli) if seed % 2 == 0 else (pauli, comp)
        for _ in range(3):
            steps.append(q(rng.choice(first)))
        for _ in range(4):
            steps.append(q(rng.choice(second)))
        steps.append({"op": "cache", "csys": 0, "action": "delete", "table": rng.choice(ops.CACHE_TABLES)})
        for _ in range(4):
            steps.append(q(rng.choice(first + second)))
    else:
        raise ValueError(name)
    return {"engine": "histsim", "seed": seed, "tier": tier, "opts": {"directed": name}, "pool": to_jsonable(pool0), "steps": to_jsonable(steps)}
