"""histsim world: a pool of quara objects described by literal recipes.

Every pool entry has a recipe (JSON-literal: arrays, flags, references to other entries) from which the
same object can be rebuilt in a *fresh world*: new CompositeSystem instances with no table built, new
operand objects, new loss / algorithm / estimator objects.  Snapshots are value-level views of the live
objects used by the operand-immutability oracle."""
import copy

import numpy as np
from scipy import sparse

from quara.objects.composite_system_typical import generate_composite_system
from quara.objects.gate import Gate
from quara.objects.mprocess import MProcess
from quara.objects.povm import Povm
from quara.objects.state import State
from quara.objects.qoperation import QOperation
from quara.objects.multinomial_distribution import MultinomialDistribution
from quara.objects.qoperation_typical import generate_qoperation
from quara.protocol.qtomography.standard.standard_povmt import StandardPovmt
from quara.protocol.qtomography.standard.standard_qmpt import StandardQmpt
from quara.protocol.qtomography.standard.standard_qpt import StandardQpt
from quara.protocol.qtomography.standard.standard_qst import StandardQst
from quara.protocol.qtomography.standard.linear_estimator import LinearEstimator
from quara.protocol.qtomography.standard.projected_linear_estimator import ProjectedLinearEstimator
from quara.protocol.qtomography.standard.loss_minimization_estimator import LossMinimizationEstimator
from quara.loss_function.weighted_probability_based_squared_error import WeightedProbabilityBasedSquaredError, WeightedProbabilityBasedSquaredErrorOption
from quara.loss_function.weighted_relative_entropy import WeightedRelativeEntropy, WeightedRelativeEntropyOption
from quara.loss_function.standard_qtomography_based_weighted_probability_based_squared_error import (
    StandardQTomographyBasedWeightedProbabilityBasedSquaredError,
    StandardQTomographyBasedWeightedProbabilityBasedSquaredErrorOption,
)
from quara.loss_function.standard_qtomography_based_weighted_relative_entropy import (
    StandardQTomographyBasedWeightedRelativeEntropy,
    StandardQTomographyBasedWeightedRelativeEntropyOption,
)
from quara.minimization_algorithm.projected_gradient_descent_backtracking import ProjectedGradientDescentBacktracking, ProjectedGradientDescentBacktrackingOption
from quara.minimization_algorithm.projected_gradient_descent_with_momentum import ProjectedGradientDescentWithMomentum, ProjectedGradientDescentWithMomentumOption
from quara.minimization_algorithm.projected_fast_iterative_shrinkage_thresholding_algorithm import (
    ProjectedFastIterativeShrinkageThresholdingAlgorithm,
    ProjectedFastIterativeShrinkageThresholdingAlgorithmOption,
)
from quara.settings import Settings

QOP_FLAGS = ["is_physicality_required", "is_estimation_object", "on_para_eq_constraint", "on_algo_eq_constraint", "on_algo_ineq_constraint", "mode_proj_order", "eps_proj_physical", "eps_truncate_imaginary_part"]

LOSS_CLASSES = {
    "se": (WeightedProbabilityBasedSquaredError, WeightedProbabilityBasedSquaredErrorOption),
    "re": (WeightedRelativeEntropy, WeightedRelativeEntropyOption),
    "fast_se": (StandardQTomographyBasedWeightedProbabilityBasedSquaredError, StandardQTomographyBasedWeightedProbabilityBasedSquaredErrorOption),
    "fast_re": (StandardQTomographyBasedWeightedRelativeEntropy, StandardQTomographyBasedWeightedRelativeEntropyOption),
}
ALGO_CLASSES = {
    "pgdb": (ProjectedGradientDescentBacktracking, ProjectedGradientDescentBacktrackingOption),
    "pgdm": (ProjectedGradientDescentWithMomentum, ProjectedGradientDescentWithMomentumOption),
    "pfista": (ProjectedFastIterativeShrinkageThresholdingAlgorithm, ProjectedFastIterativeShrinkageThresholdingAlgorithmOption),
}
ESTIMATOR_CLASSES = {"linear": LinearEstimator, "plinear": ProjectedLinearEstimator, "lossmin": LossMinimizationEstimator}


def _flags_of(q):
    """constructor flags read from the private attributes (reading a property could have side effects under a mutation)."""
    d = vars(q)
    return {k: d.get("_" + k) for k in QOP_FLAGS}


def qop_recipe(q, csys_id, born_atol):
    t = type(q).__name__
    r = {"kind": t.lower(), "csys": csys_id, "flags": _flags_of(q), "born_atol": born_atol}
    if t == "State":
        r["vec"] = np.array(q.vec)
    elif t == "Povm":
        r["vecs"] = [np.array(v) for v in q.vecs]
    elif t == "Gate":
        r["hs"] = np.array(q.hs)
    elif t == "MProcess":
        r["hss"] = [np.array(h) for h in q.hss]
        r["shape"] = list(q.shape)
        if vars(q).get("_mode_sampling"):
            seed = vars(q).get("_random_seed_or_generator")
            r.update(mode_sampling=True, sampling_seed=seed if isinstance(seed, int) else 7, sampling=True)
    else:
        raise TypeError(t)
    return r


def build_qop(recipe, c_sys):
    f = {k: v for k, v in recipe["flags"].items() if v is not None or k in ("eps_proj_physical", "eps_truncate_imaginary_part")}
    kind = recipe["kind"]
    if kind == "state":
        return State(c_sys, np.array(recipe["vec"]), **f)
    if kind == "povm":
        return Povm(c_sys, [np.array(v) for v in recipe["vecs"]], **f)
    if kind == "gate":
        return Gate(c_sys, np.array(recipe["hs"]), **f)
    if kind == "mprocess":
        extra = {}
        if recipe.get("mode_sampling"):
            extra = {"mode_sampling": True, "random_seed_or_generator": recipe.get("sampling_seed", 7)}
        return MProcess(c_sys, [np.array(h) for h in recipe["hss"]], shape=tuple(recipe["shape"]), **extra, **f)
    raise ValueError(kind)


def build_csys(recipe):
    if recipe.get("basis") == "comp":
        # a system of the same dimension over another basis (directed `basis_pair` histories only)
        from quara.objects.composite_system import CompositeSystem
        from quara.objects.elemental_system import ElementalSystem
        from quara.objects.matrix_basis import get_comp_basis

        return CompositeSystem([ElementalSystem(i, get_comp_basis()) for i in recipe["ids"]])
    return generate_composite_system(recipe["mode"], recipe["num"], ids_esys=list(recipe["ids"]))


# ---------------------------------------------------------------------------------------------
# module-level containers: hidden state that does not live on an object
# ---------------------------------------------------------------------------------------------
_CONTAINERS = None


def _container_slots():
    import sys

    slots = []
    for name, mod in sorted(sys.modules.items()):
        if mod is None or not (name == "quara" or name.startswith("quara.")):
            continue
        for k, v in list(vars(mod).items()):
            if k.startswith("__") and k.endswith("__"):
                continue
            if isinstance(v, (dict, list, set)):
                slots.append((mod, k))
            elif isinstance(v, type) and v.__module__ == name:
                for a, val in list(vars(v).items()):
                    if not (a.startswith("__") and a.endswith("__")) and isinstance(val, (dict, list, set)):
                        slots.append((v, a))
    return slots


def container_baseline():
    """dict / list / set attributes of quara's modules and classes as they are right after import."""
    global _CONTAINERS
    if _CONTAINERS is None:
        slots = _container_slots()
        _CONTAINERS = (slots, copy.deepcopy([getattr(o, a) for o, a in slots]))
    return _CONTAINERS


class pristine_containers:
    """for the fresh world: every module / class level container whose content differs from its import-time value is
    replaced by a copy of that value, and put back afterwards.  On a tree without such hidden state nothing is swapped."""

    def __enter__(self):
        slots, base = container_baseline()
        self.saved = []
        for (o, a), b in zip(slots, base):
            cur = getattr(o, a, None)
            try:
                same = type(cur) == type(b) and len(cur) == len(b) and (len(b) == 0 or cur == b)
            except Exception:
                same = True
            if not same:
                try:
                    setattr(o, a, copy.deepcopy(b))
                    self.saved.append((o, a, cur))
                except (AttributeError, TypeError):
                    pass
        return self

    def __exit__(self, *exc):
        for o, a, cur in self.saved:
            setattr(o, a, cur)
        return False


def reset_containers():
    """start of a run: hidden module-level state left by an earlier run in this worker process is dropped, so that one
    record is one execution whatever the process ran before (replay in a fresh interpreter included)."""
    pc = pristine_containers().__enter__()
    return len(pc.saved)


container_baseline()


def build_tomo(recipe, testers):
    t = recipe["type"]
    kw = dict(on_para_eq_constraint=recipe["para"], eps_proj_physical=recipe.get("eps_proj_physical"), eps_truncate_imaginary_part=recipe.get("eps_truncate_imaginary_part"))
    states = [x for x in testers if type(x) == State]
    povms = [x for x in testers if type(x) == Povm]
    if t == "qst":
        return StandardQst(povms, **kw)
    if t == "povmt":
        return StandardPovmt(states, num_outcomes=recipe["num_outcomes"], **kw)
    if t == "qpt":
        return StandardQpt(states, povms, **kw)
    if t == "qmpt":
        return StandardQmpt(states, povms, num_outcomes=recipe["num_outcomes"], **kw)
    raise ValueError(t)


def build_loss(recipe):
    cls, _ = LOSS_CLASSES[recipe["cls"]]
    return cls()


def build_loss_option(cls_name, spec):
    _, ocls = LOSS_CLASSES[cls_name]
    weights = spec.get("weights")
    if weights is not None:
        weights = [np.array(w) for w in weights]
        return ocls(mode_weight="custom", weights=weights)
    return ocls(spec.get("mode_weight", "identity"))


def build_algo(recipe):
    cls, _ = ALGO_CLASSES[recipe["cls"]]
    return cls()


def build_algo_option(cls_name, spec):
    _, ocls = ALGO_CLASSES[cls_name]
    kw = dict(on_algo_eq_constraint=spec["eq"], on_algo_ineq_constraint=spec["ineq"], max_iteration_optimization=spec["max_iteration"], mode_proj_order=spec["proj_order"], eps=spec["eps"])
    if spec.get("max_iteration_proj") is not None:
        kw["max_iteration_proj_physical"] = spec["max_iteration_proj"]
    if cls_name == "pgdb":
        kw.update(mode_stopping_criterion_gradient_descent=spec.get("stopping", "single_difference_loss"), num_history_stopping_criterion_gradient_descent=spec.get("num_history", 1))
    return ocls(**kw)


def build_estimator(recipe):
    cls = ESTIMATOR_CLASSES[recipe["cls"]]
    if recipe["cls"] == "plinear":
        return cls(mode_proj_order=recipe.get("proj_order", "eq_ineq"))
    return cls()


# ---------------------------------------------------------------------------------------------
# canonical values
# ---------------------------------------------------------------------------------------------
def canon(x, depth=0):
    """address-free canonical form of any value an operation can return."""
    if x is None or isinstance(x, (bool, str)):
        return x
    if isinstance(x, (int, np.integer)) and not isinstance(x, (bool, np.bool_)):
        return int(x)
    if isinstance(x, (np.bool_,)):
        return bool(x)
    if isinstance(x, (float, np.floating)):
        return float(x)
    if isinstance(x, (complex, np.complexfloating)):
        return complex(x)
    if isinstance(x, np.ndarray):
        if x.dtype == object:
            return [canon(y, depth + 1) for y in x.tolist()]
        return np.array(x)
    if sparse.issparse(x):
        return {"sparse": True, "array": np.asarray(x.toarray())}
    if isinstance(x, QOperation):
        return {"qop": type(x).__name__, "value": snapshot_qop(x)}
    if isinstance(x, MultinomialDistribution):
        return {"multinomial": np.array(x.ps), "shape": list(x.shape)}
    if isinstance(x, dict):
        return {str(k): canon(v, depth + 1) for k, v in x.items()}
    if isinstance(x, (list, tuple)):
        return [canon(y, depth + 1) for y in x]
    if hasattr(x, "estimated_var_sequence"):
        return {"estimates": [np.array(v) for v in x.estimated_var_sequence]}
    if hasattr(x, "basis") and hasattr(x, "__len__") and not callable(getattr(x, "basis")):
        return {"basis": [np.asarray(b.toarray() if sparse.issparse(b) else b) for b in x.basis]}
    return {"unknown_type": type(x).__name__}


def snapshot_qop(q):
    t = type(q).__name__
    d = vars(q)
    out = {"type": t, "flags": {k: d.get("_" + k) for k in QOP_FLAGS}}
    # further documented scalar settings (private reads: no property side effects).  Undocumented private attributes are
    # deliberately not part of the observable value: a correct memo on an object must not raise an alarm.
    out["scalars"] = {k: d.get(k) for k in ("_mode_sampling", "_eps_zero") if k in d}
    if t == "State":
        out["arrays"] = [np.array(q.vec)]
    elif t == "Povm":
        out["arrays"] = [np.array(v) for v in q.vecs]
        out["nums_local_outcomes"] = [int(n) for n in d.get("_nums_local_outcomes", [])]
    elif t == "Gate":
        out["arrays"] = [np.array(q.hs)]
    elif t == "MProcess":
        out["arrays"] = [np.array(h) for h in q.hss]
        out["shape"] = list(q.shape)
    elif t == "StateEnsemble":
        out["arrays"] = [np.array(s.vec) for s in q.states]
        out["prob"] = np.array(q.prob_dist.ps)
    return out


def snapshot_csys(c):
    """observable value of a composite system: its basis (never its caches)."""
    return {"dim": int(c.dim), "basis": [np.asarray(b.toarray() if sparse.issparse(b) else b) for b in c.basis().basis], "names": [e.name for e in c.elemental_systems]}


def snapshot_tomo(t):
    e = t._experiment

    def objs(lst):
        return [None if q is None else snapshot_qop(q) for q in lst]

    return {"type": type(t).__name__, "matA": np.array(t.calc_matA()), "vecB": np.array(t.calc_vecB()), "num_variables": int(t.num_variables), "para": bool(t.on_para_eq_constraint),
            "schedules": [[list(it) for it in s] for s in e.schedules],
            # the operations the experiment holds (the unknown's slot is None): part of what the tomography object *is*
            "experiment": {"states": objs(e.states), "povms": objs(e.povms), "gates": objs(e.gates), "mprocesses": objs(e.mprocesses)},
            "template": snapshot_qop(t._template_qoperation),
            "set_qoperations": [len(t._set_qoperations.states), len(t._set_qoperations.povms), len(t._set_qoperations.gates), len(t._set_qoperations.mprocesses)]}


def snapshot_dataset(ds):
    return [[int(n), np.array(p)] for (n, p) in ds]
