"""Static description of the histsim engine (C13).  No quara import."""

PROPERTY = "C13"
ENGINE = "histsim"

TIERS = {
    "quick": {"runs": 1500, "faultfree_runs": 16, "determinism_runs": 16, "run_timeout": 600, "shrink_evals": 250},
    "thorough": {"runs": 40000, "faultfree_runs": 64, "determinism_runs": 64, "run_timeout": 900, "shrink_evals": 500},
}

DIRECTED = {
    "quick": [("cache_triples", 100 + i) for i in range(24)] + [("option_alternation", 200 + i) for i in range(12)] + [("projection_alternation", 300 + i) for i in range(8)] + [("basis_pair", 400 + i) for i in range(8)],
    "thorough": [("cache_triples", 100 + i) for i in range(240)] + [("option_alternation", 200 + i) for i in range(120)] + [("projection_alternation", 300 + i) for i in range(60)] + [("basis_pair", 400 + i) for i in range(40)],
}

RULE = (
    "One evaluation = one simulated history of 5-40 (quick) / 5-60 (thorough) operations on a shared pool of quara objects (two 1-qubit composite systems, "
    "physical and non-physical states / POVMs / gates / measurement processes, tomography objects over pool testers, datasets, re-used loss / algorithm / "
    "estimator objects): queries, conversions (plain, _with_dict, _with_sparsity), projections (object level, _with_var, closures), compose, tensor product, "
    "estimation and loss evaluation with re-used loss/algorithm objects across datasets and weighting modes, copies with in-place edits, basis write attempts, "
    "verbatim re-runs of earlier steps; faults = deletion / warm-up of each of the 8 deletable composite-system tables, global tolerance flips that are later "
    "restored. After every step: byte-level snapshots of all pool objects before/after (O1) and the step's result against the same step in a fresh world (O2). "
    "Distinct = digest of the (operation, name, operand kind) sequence; non-trivial = at least one fault step (cache deletion/warm-up, tolerance flip) with an "
    "operation compared against the fresh world after it."
)

COMPONENTS = {
    "real": ["quara.objects (CompositeSystem, MatrixBasis, State, Povm, Gate, MProcess, operators)", "quara.protocol.qtomography.standard (tomographies, Linear / ProjectedLinear / LossMinimization estimators)",
             "quara.loss_function (4 probability-based losses)", "quara.minimization_algorithm (PGDB, PGD with momentum, pFISTA)", "quara.settings.Settings (process-global tolerance)"],
    "stub": ["none: the simulator only chooses the history (operation order, cache drops, tolerance flips); every operation is real quara code"],
    "reference_model": "the same operation on freshly constructed operands: new CompositeSystem with no table built, operands rebuilt from their literal recipes under the tolerance in force when they were created, brand-new loss / algorithm / estimator objects",
}

ASSUMPTIONS = [
    "fresh-world results are produced by the code under test (metamorphic oracle): a defect that is independent of history is invisible here (that is the business of the not-applicable input-space properties)",
    "1-qubit systems (two of them for tensor products); constructors adopt private copies of the recipe arrays",
    "loss and algorithm objects are exempt from the operand-immutability oracle (their documented contract is to be re-configured) and covered by history independence instead",
    "exact comparison of results (same floating-point operations in both worlds)",
]

FAULT_KINDS = ["cache_delete", "cache_warm", "tolerance_flip", "tolerance_restore", "caller_edits_returned_result", "in_place_mutator", "address_reuse"]

PROBES = [
    "table_deleted_then_rebuilt", "one_table_of_a_joint_group_deleted_siblings_alive", "operation_after_cache_deletion", "operation_inside_tolerance_flip",
    "operation_right_after_tolerance_restore", "with_var_projection_para_false", "loss_object_used_with_2_modes_and_2_datasets", "loss_or_algo_object_reused",
    "step_raised_same_in_both_worlds", "invalid_setter_call_raised",
]
