"""histsim operation catalogue: what can be asked of each kind of pool object, and how steps are drawn."""
import math

import numpy as np

S2 = 1 / math.sqrt(2)

# zero-argument methods per kind (queries, conversions, projections returning new objects)
METHODS0 = {
    "state": ["to_density_matrix", "to_density_matrix_with_sparsity", "to_var", "to_stacked_vector", "calc_eigenvalues", "is_physical", "is_trace_one", "is_hermitian",
              "is_positive_semidefinite", "is_eq_constraint_satisfied", "is_ineq_constraint_satisfied", "calc_proj_eq_constraint", "calc_proj_ineq_constraint", "calc_proj_physical",
              "generate_zero_obj", "generate_origin_obj", "copy"],
    "povm": ["matrices", "matrices_with_sparsity", "to_var", "to_stacked_vector", "calc_eigenvalues", "is_physical", "is_hermitian", "is_identity_sum", "is_positive_semidefinite",
             "is_eq_constraint_satisfied", "is_ineq_constraint_satisfied", "calc_proj_eq_constraint", "calc_proj_ineq_constraint", "calc_proj_physical", "generate_zero_obj",
             "generate_origin_obj", "copy"],
    "gate": ["to_choi_matrix", "to_choi_matrix_with_dict", "to_choi_matrix_with_sparsity", "to_kraus_matrices", "to_process_matrix", "convert_to_comp_basis", "to_var",
             "to_stacked_vector", "is_physical", "is_cp", "is_tp", "is_eq_constraint_satisfied", "is_ineq_constraint_satisfied", "calc_proj_eq_constraint", "calc_proj_ineq_constraint",
             "calc_proj_physical", "generate_zero_obj", "generate_origin_obj", "copy"],
    "mprocess": ["to_povm", "convert_to_comp_basis", "to_var", "to_stacked_vector", "is_physical", "is_cp", "is_sum_tp", "is_eq_constraint_satisfied", "is_ineq_constraint_satisfied",
                 "calc_proj_eq_constraint", "calc_proj_ineq_constraint", "calc_proj_physical", "generate_zero_obj", "generate_origin_obj", "copy"],
}
# methods with one small integer argument
METHODS1 = {
    "state": ["calc_gradient"],
    "povm": ["matrix", "matrix_with_sparsity", "vec", "calc_gradient"],
    "gate": ["calc_gradient"],
    "mprocess": ["to_choi_matrix", "to_choi_matrix_with_dict", "to_choi_matrix_with_sparsity", "to_kraus_matrices", "to_process_matrix", "hs", "calc_gradient"],
}
WITH_VAR = ["calc_proj_eq_constraint_with_var", "calc_proj_ineq_constraint_with_var", "calc_proj_physical_with_var",
            "func_calc_proj_eq_constraint_with_var", "func_calc_proj_ineq_constraint_with_var", "func_calc_proj_physical_with_var",
            "convert_var_to_stacked_vector", "convert_stacked_vector_to_var", "generate_from_var"]
# module-level conversions taking (c_sys, array[, ...])
MODFUNCS = {
    "gate": ["to_choi_from_hs", "to_choi_from_hs_with_dict", "to_choi_from_hs_with_sparsity", "to_hs_from_choi", "to_hs_from_choi_with_dict", "to_hs_from_choi_with_sparsity",
             "to_kraus_matrices_from_hs", "to_process_matrix_from_hs", "convert_hs_to_var", "is_tp", "is_cp"],
    "state": ["to_density_matrix_from_vec", "to_vec_from_density_matrix_with_sparsity", "convert_vec_to_var"],
    "povm": ["to_matrices_from_vecs", "to_vecs_from_matrices_with_sparsity", "convert_vecs_to_var"],
    "mprocess": ["convert_hss_to_var"],
}
CACHE_TABLES = ["dict_from_hs_to_choi", "dict_from_choi_to_hs", "basis_T_sparse", "basisconjugate_sparse", "basisconjugate_basis_sparse", "basis_basisconjugate_T_sparse",
                "basis_basisconjugate_T_sparse_from_1", "basishermitian_basis_T_from_1"]
JOINT_GROUPS = [["basis_T_sparse", "basisconjugate_sparse"],
                ["basisconjugate_basis_sparse", "basis_basisconjugate_T_sparse", "basis_basisconjugate_T_sparse_from_1", "basishermitian_basis_T_from_1"]]


# ---------------------------------------------------------------------------------------------
# literal object generators (1 qubit, normalised Pauli basis: vec(I/2) = (1/sqrt2, 0, 0, 0))
# ---------------------------------------------------------------------------------------------
def rand_state_vec(rng, physical=True):
    r = [rng.gauss(0, 1) for _ in range(3)]
    n = math.sqrt(sum(x * x for x in r)) or 1.0
    rad = rng.random() ** (1 / 3) if physical else rng.choice([1.2, 1.5, 3.0])
    if physical and rng.random() < 0.3:
        rad = 1.0
    v = [S2] + [S2 * rad * x / n for x in r]
    if not physical and rng.random() < 0.5:
        v[0] = S2 * rng.choice([0.7, 1.3])
    return np.array(v, dtype=np.float64)


def rand_povm_vecs(rng, physical=True, outcomes=2):
    if outcomes == 2:
        a = rng.uniform(0.2, 0.8)
        r = [rng.gauss(0, 1) for _ in range(3)]
        n = math.sqrt(sum(x * x for x in r)) or 1.0
        b = rng.uniform(0, min(a, 1 - a)) if physical else rng.uniform(0.6, 1.2)
        e0 = np.array([a * math.sqrt(2)] + [b * math.sqrt(2) * x / n for x in r])
        e1 = np.array([math.sqrt(2), 0, 0, 0]) - e0
        if not physical and rng.random() < 0.5:
            e1 = e1 + np.array([0.1, 0.05, 0, 0])
        return [e0, e1]
    # 3 outcomes: convex weights of the identity plus small traceless parts
    w = [rng.uniform(0.2, 1) for _ in range(outcomes)]
    s = sum(w)
    vecs = []
    for i in range(outcomes):
        r = [rng.uniform(-0.1, 0.1) for _ in range(3)]
        vecs.append(np.array([w[i] / s * math.sqrt(2)] + r))
    tot = sum(vecs)
    vecs[-1] = vecs[-1] - np.array([0.0] + list(tot[1:]))
    if not physical:
        vecs[0] = vecs[0] + np.array([0.0, 0.9, 0, 0])
    return vecs


def rot_hs(axis, theta):
    c, s = math.cos(theta), math.sin(theta)
    m = np.eye(4)
    i, j = {"x": (2, 3), "y": (3, 1), "z": (1, 2)}[axis]
    m[i, i], m[i, j], m[j, i], m[j, j] = c, -s, s, c
    return m


def rand_gate_hs(rng, physical=True):
    hs = rot_hs(rng.choice("xyz"), rng.uniform(0, math.pi)) @ rot_hs(rng.choice("xyz"), rng.uniform(0, math.pi))
    p = rng.choice([0.0, 0.1, 0.5])
    hs = np.diag([1, 1 - p, 1 - p, 1 - p]) @ hs
    if not physical:
        hs = hs + rng.choice([0.05, 0.3]) * np.array([[rng.gauss(0, 1) for _ in range(4)] for _ in range(4)])
        if rng.random() < 0.5:
            hs[0] = [1, 0, 0, 0]  # TP but not CP
    return hs


def rand_mprocess_hss(rng, physical=True):
    # measurement in a rotated z basis followed by a depolarising channel: hs_x = D_p * |b_x)(b_x|-type maps
    r = [rng.gauss(0, 1) for _ in range(3)]
    n = math.sqrt(sum(x * x for x in r)) or 1.0
    u = np.array([x / n for x in r])
    hss = []
    for sign in (+1, -1):
        e = np.array([S2] + list(sign * S2 * u))  # projector vec
        hs = np.outer(e, e)  # rho -> Tr(P rho) P
        hss.append(hs)
    p = rng.choice([0.0, 0.2])
    D = np.diag([1, 1 - p, 1 - p, 1 - p])
    hss = [D @ h for h in hss]
    if not physical:
        hss = [h + rng.choice([0.05, 0.2]) * np.array([[rng.gauss(0, 1) for _ in range(4)] for _ in range(4)]) for h in hss]
    return hss


def rand_var(rng, n, scale=None):
    scale = scale or rng.choice([0.3, 1.0, 3.0])
    return np.array([rng.gauss(0, scale) for _ in range(n)], dtype=np.float64)


def gen_dataset(rng, prob_dists, sizes=None):
    """empirical distributions [(n, counts/n)] drawn with the harness PRNG (zero-frequency outcomes included)."""
    out = []
    for p in prob_dists:
        n = rng.choice(sizes or [10, 100, 1000])
        p = np.clip(np.asarray(p, dtype=float), 0, None)
        p = p / p.sum()
        counts = [0] * len(p)
        cum = np.cumsum(p)
        for _ in range(n if n <= 100 else 100):
            u = rng.random()
            k = int(np.searchsorted(cum, u, side="right"))
            counts[min(k, len(p) - 1)] += 1
        if n > 100:
            counts = [c * (n // 100) for c in counts]
        out.append([n, np.array(counts, dtype=np.float64) / n])
    return out


# results that are new representations (never the defining arrays): the caller may edit them freely
SCRIBBLE_OK = {"to_density_matrix", "to_density_matrix_with_sparsity", "calc_eigenvalues", "matrices", "matrices_with_sparsity", "matrix", "matrix_with_sparsity",
               "to_choi_matrix", "to_choi_matrix_with_dict", "to_choi_matrix_with_sparsity", "to_kraus_matrices", "to_process_matrix", "convert_to_comp_basis", "convert_basis"}
# operations that depend on the lazily built composite-system tables
CACHE_METHODS0 = {
    "state": ["to_density_matrix_with_sparsity", "calc_proj_ineq_constraint", "calc_proj_physical", "is_physical", "is_positive_semidefinite", "calc_eigenvalues"],
    "povm": ["matrices_with_sparsity", "calc_proj_ineq_constraint", "calc_proj_physical", "is_physical", "is_positive_semidefinite", "calc_eigenvalues"],
    "gate": ["to_choi_matrix_with_dict", "to_choi_matrix_with_sparsity", "to_choi_matrix", "to_kraus_matrices", "is_cp", "is_physical", "calc_proj_ineq_constraint", "calc_proj_physical", "to_process_matrix"],
    "mprocess": ["is_cp", "is_physical", "calc_proj_ineq_constraint", "calc_proj_physical", "to_povm"],
}
CACHE_METHODS1 = {"povm": ["matrix_with_sparsity"], "mprocess": ["to_choi_matrix_with_dict", "to_choi_matrix_with_sparsity", "to_choi_matrix", "to_kraus_matrices", "to_process_matrix"]}
CACHE_MODFUNCS = {
    "gate": ["to_choi_from_hs_with_dict", "to_choi_from_hs_with_sparsity", "to_hs_from_choi_with_dict", "to_hs_from_choi_with_sparsity", "to_choi_from_hs", "to_hs_from_choi", "is_cp", "to_kraus_matrices_from_hs"],
    "state": ["to_vec_from_density_matrix_with_sparsity"],
    "povm": ["to_vecs_from_matrices_with_sparsity"],
}
