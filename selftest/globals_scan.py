"""Guard for poolsim's in-process isolation of simulated worker processes (DESIGN.md section 8).

Simulated process workers share one interpreter; isolation = pickling of task arguments plus swapping the process-global
state quara has.  This scan lists every `global` statement and every mutated class-level attribute pattern in the quara
sources and fails (exit 2: harness problem, not a violation) if it finds one the swap list does not know, so a new
process global cannot silently be shared between simulated workers."""
import ast
import json
import os
import sys

KNOWN = {
    ("quara/data_analysis/physicality_violation_check.py", "__ineq_const_eps"),  # swapped by ProcGlobals (set_ineq_const_eps)
    ("quara/simulation/standard_qtomography_simulation_report.py", "_temp_dir_path"),  # PDF report only; pdf_mode="none" in every run
}
KNOWN_CLASS_STATE = {("quara/settings.py", "Settings", "__atol")}  # swapped by ProcGlobals (Settings.set_atol)


def main():
    repo = os.environ.get("VERIF_REPO", "/repo")
    found, unknown = [], []
    for root, _, files in os.walk(os.path.join(repo, "quara")):
        for fn in files:
            if not fn.endswith(".py"):
                continue
            path = os.path.join(root, fn)
            rel = os.path.relpath(path, repo)
            try:
                tree = ast.parse(open(path, encoding="utf-8").read())
            except SyntaxError:
                continue
            for node in ast.walk(tree):
                if isinstance(node, ast.Global):
                    for name in node.names:
                        found.append([rel, name])
                        if (rel, name) not in KNOWN:
                            unknown.append([rel, name])
                # classmethods assigning cls.<attr> (process-global class state such as Settings.__atol)
                if isinstance(node, ast.ClassDef):
                    for sub in ast.walk(node):
                        if isinstance(sub, ast.Assign):
                            for t in sub.targets:
                                if isinstance(t, ast.Attribute) and isinstance(t.value, ast.Name) and t.value.id == "cls":
                                    key = (rel, node.name, t.attr.replace("_" + node.name, ""))
                                    found.append(list(key))
                                    if key not in KNOWN_CLASS_STATE:
                                        unknown.append(list(key))
    print(json.dumps({"process_globals_found": found, "unknown": unknown}))
    return 2 if unknown else 0


if __name__ == "__main__":
    sys.exit(main())
