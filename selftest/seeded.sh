#!/bin/bash
# Runs a check against one seeded change: applies seeded/<id>/patch.diff to a scratch worktree of /repo HEAD
# (outside /repo and /verif), points the check at it with VERIF_REPO, prints the exit code, removes the worktree.
# usage: selftest/seeded.sh <seeded-id> <C13|C14|C15> [extra check args...]
set -u
ID=$1; PROP=$2; shift 2
HERE=$(cd "$(dirname "$0")/.." && pwd)
WT=$(mktemp -d /tmp/seeded-$ID-XXXXXX)
rmdir "$WT"
git -C /repo worktree add -q --detach "$WT" HEAD || exit 2
trap 'git -C /repo worktree remove --force "$WT" >/dev/null 2>&1' EXIT
git -C "$WT" apply "$HERE/seeded/$ID/patch.diff" || { echo "$ID: patch does not apply"; exit 2; }
cd "$HERE" && VERIF_REPO="$WT" ./check "$PROP" --no-evidence "$@" > "/tmp/seeded-$ID-$PROP.log" 2>&1
rc=$?
echo "$ID $PROP exit=$rc $(grep -c '^VIOLATION' /tmp/seeded-$ID-$PROP.log) violation line(s): $(grep -m1 '^violation:' /tmp/seeded-$ID-$PROP.log | cut -c1-260)"
exit $rc
