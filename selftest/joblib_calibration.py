"""Calibration of the SimParallel model against the real joblib on this image (observes, decides nothing).

Each assumption the simulated pool makes about joblib.Parallel is checked with real processes / threads:
  A1 first level with n_jobs>1 -> other processes, arguments are copies (pickled)
  A2 a level with n_jobs>1 nested inside such a worker -> threads of the worker process sharing the argument objects
  A3 a third nested level -> sequential in the calling thread
  A4 n_jobs=1 levels are transparent (same process, same thread, same objects)
  A5 results come back in submission order (return_as="list")
  A6 tasks of one batch share one unpickled copy of a common argument; different batches get different copies
  A7 a worker process keeps its module globals between Parallel calls with the same n_jobs (pool re-use) and does
     not inherit the parent's legacy numpy random state
  A8 return_as="generator_unordered" yields in completion order
Exit 0 if all hold, 2 otherwise (a harness/model problem, never a property violation)."""
import json
import os
import sys
import threading
import time

import joblib
import numpy as np

MARK = {"v": 0}


class Box:
    def __init__(self):
        self.items = []


def leaf(box, tag):
    box.items.append(tag)
    return {"pid": os.getpid(), "tid": threading.get_ident(), "box": id(box), "n": len(box.items)}


def level3(box, tag):
    me = threading.get_ident()
    inner = joblib.Parallel(n_jobs=2)(joblib.delayed(leaf)(box, f"{tag}.{i}") for i in range(2))
    return {"pid": os.getpid(), "tid": me, "inner": inner}


def level2(box, tag):
    mid = joblib.Parallel(n_jobs=2)(joblib.delayed(level3)(box, f"{tag}.{i}") for i in range(3))
    return {"pid": os.getpid(), "tid": threading.get_ident(), "box": id(box), "seen": list(box.items), "mid": mid}


def set_mark(v):
    # functions defined in __main__ are shipped by value (their globals are copies), so the marker lives on an
    # imported module, which is genuine per-process state
    sys._calibration_mark = v
    time.sleep(0.05)
    return os.getpid()


def get_mark(_):
    time.sleep(0.05)
    return [os.getpid(), getattr(sys, "_calibration_mark", 0), float(np.random.get_state()[1][0])]


def slow_then_fast(i):
    time.sleep(0.6 if i == 0 else 0.0)
    return i


def main():
    out = {}
    ok = True
    parent_pid, parent_tid = os.getpid(), threading.get_ident()
    box = Box()
    res = joblib.Parallel(n_jobs=2)(joblib.delayed(level2)(box, f"t{i}") for i in range(2))
    a1 = all(r["pid"] != parent_pid for r in res) and len(box.items) == 0
    out["A1_processes_and_copies"] = a1
    a2 = all(all(m["pid"] == r["pid"] for m in r["mid"]) and len({m["tid"] for m in r["mid"]} | {r["tid"]}) >= 2 for r in res)
    # shared objects at the thread level: all leaves of one process task appended to the same box
    a2 = a2 and all(len({l["box"] for m in r["mid"] for l in m["inner"]}) == 1 and max(l["n"] for m in r["mid"] for l in m["inner"]) == 6 for r in res)
    out["A2_nested_level_is_threads_sharing_objects"] = a2
    a3 = all(all(all(l["tid"] == m["tid"] and l["pid"] == m["pid"] for l in m["inner"]) for m in r["mid"]) for r in res)
    out["A3_third_level_sequential"] = a3
    box4 = Box()
    r4 = joblib.Parallel(n_jobs=1)(joblib.delayed(leaf)(box4, i) for i in range(3))
    out["A4_n_jobs_1_transparent"] = all(r["pid"] == parent_pid and r["tid"] == parent_tid and r["box"] == id(box4) for r in r4) and len(box4.items) == 3
    r5 = joblib.Parallel(n_jobs=3)(joblib.delayed(slow_then_fast)(i) for i in range(6))
    out["A5_submission_order"] = r5 == list(range(6))
    box6 = Box()
    r6 = joblib.Parallel(n_jobs=2, batch_size=2)(joblib.delayed(leaf)(box6, i) for i in range(4))
    same_in_batch = r6[0]["box"] == r6[1]["box"] and r6[0]["pid"] == r6[1]["pid"] and r6[1]["n"] == 2 and r6[2]["n"] == 1 and r6[3]["n"] == 2
    out["A6_batch_shares_one_copy"] = bool(same_in_batch)
    np.random.seed(4242)
    parent_first = float(np.random.get_state()[1][0])
    pids = joblib.Parallel(n_jobs=2, batch_size=1)(joblib.delayed(set_mark)(7) for _ in range(4))
    marks = joblib.Parallel(n_jobs=2, batch_size=1)(joblib.delayed(get_mark)(i) for i in range(4))
    reused = any(m[1] == 7 for m in marks) and set(m[0] for m in marks) <= set(pids) | set(m[0] for m in marks)
    not_inherited = all(m[2] != parent_first for m in marks)
    out["A7_pool_reuse_keeps_globals_and_rng_not_inherited"] = bool(reused and not_inherited)
    try:
        r8 = list(joblib.Parallel(n_jobs=2, return_as="generator_unordered")(joblib.delayed(slow_then_fast)(i) for i in range(3)))
        out["A8_unordered_generator_is_completion_order"] = r8[0] != 0 and sorted(r8) == [0, 1, 2]
    except TypeError:
        out["A8_unordered_generator_is_completion_order"] = None  # joblib too old: option absent, nothing to model
    bad = [k for k, v in out.items() if v is False]
    out["joblib"] = joblib.__version__
    print(json.dumps(out))
    return 0 if not bad else 2


if __name__ == "__main__":
    sys.exit(main())
