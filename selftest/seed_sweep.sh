#!/bin/bash
# False-alarm soak across base seeds: runs the quick tier of every claimed property under several VERIF_SEED values on the
# tree under test (default /repo) without touching the evidence files.  Exit 0 iff every run exits 0.
# usage: selftest/seed_sweep.sh [first-seed] [count] [property ...]
set -u
FIRST=${1:-1}; COUNT=${2:-5}; shift 2 2>/dev/null
PROPS=${*:-C13 C14 C15}
HERE=$(cd "$(dirname "$0")/.." && pwd)
bad=0
for ((s=FIRST; s<FIRST+COUNT; s++)); do
  for p in $PROPS; do
    out=$(cd "$HERE" && VERIF_SEED=$s ./check "$p" --tier quick --no-evidence 2>&1); rc=$?
    echo "VERIF_SEED=$s $p exit=$rc $(echo "$out" | grep -c '^VIOLATION') violation line(s) | $(echo "$out" | tail -1 | cut -c1-160)"
    [ $rc -ne 0 ] && { bad=$((bad+1)); echo "$out" | grep -a '^violation:\|HARNESS' | head -5 | cut -c1-600; }
  done
done
echo "seed sweep: $bad failing run(s)"
[ $bad -eq 0 ]
