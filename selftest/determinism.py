#!/venv/bin/python
"""Determinism self-test on a large sample (guidance: prove determinism first, on many seeds, across worker counts and
hash seeds).  Runs the same run seeds twice - 16 workers / PYTHONHASHSEED=0 and 5 workers / PYTHONHASHSEED=4242 - in
fresh interpreters and diffs the event-log digests; then replays the explicit records of the first pass and diffs again.
usage: selftest/determinism.py <C13|C14|C15> [n_seeds] [tier]      exit 0 = identical, 2 = mismatch"""
import os
import sys

HERE = os.path.dirname(os.path.dirname(os.path.abspath(__file__)))
sys.path.insert(0, os.path.join(HERE, "lib"))
from simcore import driver  # noqa: E402

ENGINES = {"C13": "histsim", "C14": "rngsim", "C15": "poolsim"}


def main():
    prop = sys.argv[1].upper()
    n = int(sys.argv[2]) if len(sys.argv) > 2 else 100
    tier = sys.argv[3] if len(sys.argv) > 3 else "quick"
    engine = ENGINES[prop]
    seeds = driver.make_seeds(987654321, engine + "/determinism", n)
    tasks = [{"op": "run", "seed": s, "tier": tier, "opts": {"want_record": True}, "tag": "det"} for s in seeds]
    a = driver.run_tasks(engine, tasks, 16, 1800, hashseed="0")
    b = driver.run_tasks(engine, tasks, 5, 1800, hashseed="4242")
    bad = 0
    for s, x, y in zip(seeds, a, b):
        if x.get("harness_error") or y.get("harness_error"):
            print("HARNESS-ERROR", s, (x.get("harness_error") or y.get("harness_error"))[:500])
            bad += 1
        elif x["log_digest"] != y["log_digest"] or x["sched_digest"] != y["sched_digest"]:
            print(f"MISMATCH seed={s}: {x['log_digest']} vs {y['log_digest']}")
            bad += 1
    rep = driver.run_tasks(engine, [{"op": "replay", "record": x["record"], "tag": "rep"} for x in a if x.get("record")], 9, 1800, hashseed="31337")
    k = 0
    for s, x in zip(seeds, a):
        if not x.get("record"):
            continue
        y = rep[k]
        k += 1
        if y.get("harness_error") or x["log_digest"] != y["log_digest"]:
            print(f"REPLAY-MISMATCH seed={s}: {x['log_digest']} vs {y.get('log_digest')} {str(y.get('harness_error'))[:300]}")
            bad += 1
    print(f"{prop}: {n} seeds x (16 workers/hashseed 0, 5 workers/hashseed 4242, replay of records/hashseed 31337): {bad} mismatches")
    return 2 if bad else 0


if __name__ == "__main__":
    sys.exit(main())
