#!/usr/bin/env python3
"""replace text in a file while preserving its line endings (quara sources are CRLF).
usage (python): from crlf_patch import patch; patch(path, old, new, count=1)"""
import sys


def patch(p, old, new, count=1):
    s = open(p, newline="").read()
    if "\r\n" in s:
        old = old.replace("\n", "\r\n")
        new = new.replace("\n", "\r\n")
    assert s.count(old) == count, (p, s.count(old))
    open(p, "w", newline="").write(s.replace(old, new))


if __name__ == "__main__":
    patch(sys.argv[1], open(sys.argv[2]).read(), open(sys.argv[3]).read())
