"""MANIFEST.setup_cmd: nothing is compiled; verify the interpreter, the offline deps and that quara imports from /repo."""
import os
import subprocess
import sys

HERE = os.path.dirname(os.path.dirname(os.path.abspath(__file__)))
sys.path.insert(0, os.path.join(HERE, "lib"))
from simcore import env  # noqa: E402

code = "import numpy, scipy, joblib, pandas, quara, sys; from quara.simulation import standard_qtomography_simulation_flow; print('ok', numpy.__version__, scipy.__version__, joblib.__version__, quara.__file__)"
r = subprocess.run([env.PYTHON, "-c", code], env=env.child_env(), capture_output=True, text=True, cwd="/")
print(r.stdout.strip())
if r.returncode != 0:
    print(r.stderr[-3000:])
    sys.exit(1)
os.makedirs(os.path.join(HERE, "evidence"), exist_ok=True)
os.makedirs(os.path.join(HERE, "replays"), exist_ok=True)
