#!/bin/bash
# Sensitivity self-test (not part of the quick tier): every repaired defect is re-introduced (its fix: commit reverted
# in a scratch worktree outside /repo and /verif) and every seeded change under seeded/ is applied in turn; the check of
# the property it breaks must exit 1.  Prints one line per case; exit 0 iff every case was detected.
# usage: selftest/sensitivity.sh [tier] [jobs] [property-regex]   (with a property filter the summary goes to
# selftest/sensitivity_partial.txt and sensitivity_last.txt is left alone)
set -u
TIER=${1:-quick}; JOBS=${2:-3}; FILTER=${3:-}
HERE=$(cd "$(dirname "$0")/.." && pwd)
OUT=$(mktemp -d /tmp/sensitivity-XXXXXX)
W=$(( 16 / JOBS )); [ $W -lt 2 ] && W=2
run_case() {  # name prop kind arg
  local name=$1 prop=$2 kind=$3 arg=$4
  local wt; wt=$(mktemp -d /tmp/sens-$name-XXXXXX); rmdir "$wt"
  git -C /repo worktree add -q --detach "$wt" HEAD || { echo "$name $prop HARNESS worktree"; return; }
  if [ "$kind" = revert ]; then
    # a later repair may touch neighbouring lines; then the defect is re-introduced from a hand-made patch instead
    local manual="$HERE/selftest/reverts/${name#revert-}.diff"
    if [ -f "$manual" ]; then
      git -C "$wt" apply "$manual" || { echo "$name $prop HARNESS manual-revert-patch"; git -C /repo worktree remove --force "$wt"; return; }
    else
      git -C "$wt" revert --no-commit "$arg" >/dev/null 2>&1 || { echo "$name $prop HARNESS revert-conflict"; git -C /repo worktree remove --force "$wt"; return; }
    fi
  else
    git -C "$wt" apply "$HERE/seeded/$arg/patch.diff" || { echo "$name $prop HARNESS patch"; git -C /repo worktree remove --force "$wt"; return; }
  fi
  (cd "$HERE" && VERIF_REPO="$wt" ./check "$prop" --tier "$TIER" --no-evidence --workers $W > "$OUT/$name-$prop.log" 2>&1)
  local rc=$?
  local first; first=$(grep -m1 '^violation:' "$OUT/$name-$prop.log" | cut -c1-200)
  echo "$name $prop exit=$rc $([ $rc -eq 1 ] && echo DETECTED || echo MISSED) | $first"
  git -C /repo worktree remove --force "$wt" >/dev/null 2>&1
}
export -f run_case; export HERE OUT TIER W
{
python3 - "$HERE" <<'PY'
import json, sys
HERE=sys.argv[1]
d=json.load(open(HERE+'/known_findings.json'))
for f in d['findings']:
    if f['status']=='fixed':
        print(f"revert-{f['id']} {f['property']} revert {f['commit']}")
        if f['id'] in ('F-D3a','F-D7') and f['property'] != 'C15':  # also visible through the simulation flow
            print(f"revert-{f['id']} C15 revert {f['commit']}")
import os
for s in sorted(os.listdir(HERE+'/seeded')):
    if os.path.exists(f'{HERE}/seeded/{s}/superseded.txt'):
        continue
    m=json.load(open(f'{HERE}/seeded/{s}/meta.json'))
    print(f"seeded-{s} {m['property']} seeded {s}")
PY
} | { if [ -n "$FILTER" ]; then awk -v f="^($FILTER)$" '$2 ~ f'; else cat; fi; } | xargs -P "$JOBS" -L 1 bash -c 'run_case "$@"' _ | tee "$OUT/summary.txt"
missed=$(grep -c -v DETECTED "$OUT/summary.txt")
DEST="$HERE/selftest/sensitivity_last.txt"; [ -n "$FILTER" ] && DEST="$HERE/selftest/sensitivity_partial.txt"
cp "$OUT/summary.txt" "$DEST"
rm -rf "$OUT"
echo "cases: $(wc -l < "$DEST"), not detected: $missed"
[ "$missed" -eq 0 ]
